#![no_main]
//! libFuzzer target: the semantic oracle is inside the target (see harness/src/fuzz_entry.rs).
use libfuzzer_sys::fuzz_target;

fuzz_target!(|data: &[u8]| {
    if let Err(v) = vcheck::fuzz_entry::c15(data) {
        panic!("VIOLATION signature={} {}", v.sig, v.msg);
    }
});

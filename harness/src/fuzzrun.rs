//! Coverage-guided campaigns (libFuzzer via cargo-fuzz) for the byte-level
//! targets, driven from the thorough tier. A crash artifact is a violation
//! (its input is the replay file); a build problem is reported in the evidence
//! and skipped, it is never a violation.

use std::path::{Path, PathBuf};
use std::process::{Command, Stdio};

use serde_json::json;

use crate::rt::{Ctx, Violation};

fn harness_dir() -> PathBuf {
    crate::rt::verif_dir().join("harness")
}

pub fn campaign(ctx: &Ctx, target: &str, default_secs: u64) {
    if ctx.failed() {
        return;
    }
    let secs: u64 = std::env::var("VERIF_FUZZ_SECS").ok().and_then(|s| s.parse().ok()).unwrap_or(default_secs);
    let workers: usize = std::env::var("VERIF_FUZZ_WORKERS").ok().and_then(|s| s.parse().ok()).unwrap_or(8).min(ctx.workers.max(1));
    let hd = harness_dir();
    let build = Command::new("cargo")
        .args(["+nightly", "fuzz", "build", target])
        .current_dir(&hd)
        .env("CARGO_NET_OFFLINE", "true")
        .stdout(Stdio::null())
        .stderr(Stdio::piped())
        .output();
    let bin = hd.join("fuzz/target/x86_64-unknown-linux-gnu/release").join(target);
    match build {
        Ok(o) if o.status.success() && bin.exists() => {}
        Ok(o) => {
            let tail: String = String::from_utf8_lossy(&o.stderr).lines().rev().take(5).collect::<Vec<_>>().join(" | ");
            ctx.extra(&format!("fuzz_{target}"), json!({"skipped": "cargo +nightly fuzz build failed", "detail": tail}));
            eprintln!("fuzz: build of {target} failed, campaign skipped");
            return;
        }
        Err(e) => {
            ctx.extra(&format!("fuzz_{target}"), json!({"skipped": format!("cannot run cargo fuzz: {e}")}));
            return;
        }
    }
    let seed_dir = hd.join("fuzz/corpus_seed");
    crate::corpus::generate(&seed_dir);
    let art_dir = hd.join("fuzz/artifacts").join(target);
    let _ = std::fs::create_dir_all(&art_dir);
    let dict = hd.join("fuzz/dict").join(format!("{target}.dict"));
    let mut children = Vec::new();
    for w in 0..workers {
        let corpus = hd.join("fuzz/corpus").join(format!("{target}-s{}-w{w}", ctx.seed));
        let _ = std::fs::remove_dir_all(&corpus);
        let _ = std::fs::create_dir_all(&corpus);
        if let Ok(rd) = std::fs::read_dir(seed_dir.join(target)) {
            for e in rd.flatten() {
                let _ = std::fs::copy(e.path(), corpus.join(e.file_name()));
            }
        }
        let mut cmd = Command::new(&bin);
        cmd.arg(&corpus)
            .arg(format!("-max_total_time={secs}"))
            .arg(format!("-seed={}", ctx.seed.wrapping_mul(1000).wrapping_add(w as u64 + 1) % 4_000_000_000 + 1))
            .arg("-len_control=0")
            .arg("-max_len=4096")
            .arg("-print_final_stats=1")
            .arg("-rss_limit_mb=4096")
            .arg(format!("-artifact_prefix={}/", art_dir.display()))
            .current_dir(&hd)
            .stdout(Stdio::null())
            .stderr(Stdio::piped());
        if dict.exists() {
            cmd.arg(format!("-dict={}", dict.display()));
        }
        match cmd.spawn() {
            Ok(c) => children.push((w, corpus, c)),
            Err(e) => eprintln!("fuzz: cannot start worker {w}: {e}"),
        }
    }
    let mut execs = 0u64;
    let mut cov = 0u64;
    let mut corpus_files = 0u64;
    let mut crash: Option<(PathBuf, String)> = None;
    for (w, corpus, c) in children {
        let out = match c.wait_with_output() {
            Ok(o) => o,
            Err(_) => continue,
        };
        let text = String::from_utf8_lossy(&out.stderr);
        for l in text.lines() {
            if let Some(v) = l.strip_prefix("stat::number_of_executed_units:") {
                execs += v.trim().parse::<u64>().unwrap_or(0);
            }
            if let Some(p) = l.find(" cov: ") {
                let v: u64 = l[p + 6..].split_whitespace().next().and_then(|x| x.parse().ok()).unwrap_or(0);
                cov = cov.max(v);
            }
            if l.contains("Test unit written to ") && crash.is_none() {
                let path = l.split("Test unit written to ").nth(1).unwrap_or("").trim().to_string();
                let why = text.lines().find(|x| x.contains("VIOLATION") || x.contains("panicked at")).unwrap_or("crash").to_string();
                crash = Some((PathBuf::from(path), why));
            }
        }
        if !out.status.success() && crash.is_none() && !text.contains("Done ") {
            eprintln!("fuzz: worker {w} of {target} ended abnormally without an artifact (treated as inconclusive)");
        }
        corpus_files += std::fs::read_dir(&corpus).map(|r| r.count() as u64).unwrap_or(0);
        let _ = std::fs::remove_dir_all(&corpus);
    }
    ctx.extra(
        &format!("fuzz_{target}"),
        json!({"engine": "libFuzzer (cargo-fuzz), oracle inside the target", "workers": workers, "seconds_per_worker": secs, "executions": execs, "coverage_edges_max": cov, "corpus_files_end": corpus_files, "seed_corpus": "golden frames / example requests / encoded histories + dictionary", "crash": crash.as_ref().map(|c| c.1.clone())}),
    );
    if let Some((path, why)) = crash {
        // keep the artifact as a replay file
        let dir = crate::rt::verif_dir().join("replays").join(&ctx.id);
        let _ = std::fs::create_dir_all(&dir);
        let dest = dir.join(format!("fuzz-{}-{}.bin", target, path.file_name().and_then(|x| x.to_str()).unwrap_or("artifact")));
        let _ = std::fs::copy(&path, &dest);
        let data = std::fs::read(&dest).unwrap_or_default();
        let v = match crate::fuzz_entry::run(&ctx.id, &data) {
            Some(Err(v)) => v,
            _ => Violation { sig: "fuzz-crash".into(), msg: why },
        };
        if ctx.is_known(&v.sig).is_some() {
            ctx.print_known(&v.sig);
        } else {
            eprintln!("violation [fuzz {target}] {}: {}", v.sig, v.msg);
            println!("VIOLATION property={} replay={}", ctx.id, dest.display());
            ctx.state.lock().unwrap().violations.push((v.sig.clone(), dest));
        }
    }
}

/// Replay a raw (non-JSON) artifact through the in-process entry point.
pub fn replay_raw(ctx: &Ctx, file: &Path) -> bool {
    let Ok(data) = std::fs::read(file) else { return false };
    match crate::fuzz_entry::run(&ctx.id, &data) {
        None => false,
        Some(Ok(())) => true,
        Some(Err(v)) => {
            if ctx.is_known(&v.sig).is_some() {
                ctx.print_known(&v.sig);
            } else {
                eprintln!("replay violation [raw] {}: {}", v.sig, v.msg);
                println!("VIOLATION property={} replay={}", ctx.id, file.display());
                ctx.state.lock().unwrap().violations.push((v.sig.clone(), file.to_path_buf()));
            }
            true
        }
    }
}

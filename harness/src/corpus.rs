//! Seed corpora for the libFuzzer targets (golden frames, example requests).
use std::path::Path;

fn w(dir: &Path, name: &str, data: &[u8]) {
    let _ = std::fs::create_dir_all(dir);
    let _ = std::fs::write(dir.join(name), data);
}

pub fn generate(root: &Path) {
    // ---- c15_codec: golden frames
    let d = root.join("c15_codec");
    let id = {
        let mut a = [0u8; 256];
        for (i, x) in a.iter_mut().enumerate() {
            *x = (i as u8).wrapping_mul(13);
        }
        a
    };
    w(&d, "reg1", &srtla_protocol::create_reg1_packet(&id));
    w(&d, "reg2", &srtla_protocol::create_reg2_packet(&id));
    w(&d, "reg3", &[0x92, 0x02]);
    w(&d, "regerr", &[0x92, 0x10]);
    w(&d, "regngp", &[0x92, 0x11]);
    w(&d, "keepalive", &srtla_protocol::create_keepalive_packet(0x0102_0304_0506_0708));
    let info = srtla_protocol::ConnectionInfo { conn_id: 7, window: 20_000, in_flight: 12, rtt_ms: 40, nak_count: 3, bitrate_bytes_per_sec: 250_000 };
    w(&d, "keepalive_ext", &srtla_protocol::create_keepalive_packet_ext(info, 1_700_000_000_123));
    w(&d, "srtla_ack", &srtla_protocol::create_ack_packet(&[1, 2, 3, 0x7fff_ffff]));
    let mut ack = vec![0u8; 44];
    ack[0] = 0x80;
    ack[1] = 0x02;
    ack[16..20].copy_from_slice(&12345u32.to_be_bytes());
    w(&d, "srt_ack", &ack);
    let mut nak = vec![0x80, 0x03, 0, 0];
    for x in [5u32, 0x8000_000a, 20, 30, 0x8000_0064, 0x0000_0068] {
        nak.extend_from_slice(&x.to_be_bytes());
    }
    w(&d, "srt_nak", &nak);
    let mut data = vec![0u8; 1316];
    data[0..4].copy_from_slice(&77u32.to_be_bytes());
    data[4] = 0xc4;
    w(&d, "srt_data_retransmit", &data);
    // ---- c18_control: request lines
    let d = root.join("c18_control");
    let lines = [
        r#"{"jsonrpc":"2.0","id":1,"method":"set_mode","params":{"mode":"classic"}}"#,
        r#"{"jsonrpc":"2.0","method":"set_quality","params":{"enabled":false}}"#,
        r#"{"jsonrpc":"2.0","id":"a","method":"set_conn_timeout","params":{"ms":70000}}"#,
        r#"{"jsonrpc":"1.0","id":2,"method":"get_status"}"#,
        r#"{"jsonrpc":"2.0","id":[1],"method":"get_stats"}"#,
        r#"{"jsonrpc":"2.0","id":3,"method":"subscribe","params":{"topic":"stats"}}"#,
        "not json",
        r#"[1,2,3]"#,
    ];
    for (i, l) in lines.iter().enumerate() {
        w(&d, &format!("line{i}"), l.as_bytes());
    }
    w(&d, "history", lines.join("\n").as_bytes());
    // ---- c09_uplink: encoded histories (see fuzz_entry::c09)
    let d = root.join("c09_uplink");
    let mut x: u64 = 0x1234_5678;
    for k in 0..24 {
        let mut v = Vec::new();
        for _ in 0..(40 + k * 20) {
            x = x.wrapping_mul(6364136223846793005).wrapping_add(1442695040888963407);
            v.push((x >> 33) as u8);
        }
        w(&d, &format!("rand{k}"), &v);
    }
    // crafted: 2 links up, client traffic, flush, housekeeping, SRTLA ACK, echo, NAK
    w(&d, "crafted1", &[0x01, 0x03, 14, 30, 15, 16, 9, 0, 0, 3, 0, 0, 0, 1, 10, 0, 0, 0, 12, 0, 0, 2, 13, 0, 0, 0, 0, 50, 1, 0, 0, 4, 0x80, 0x02, 0, 0]);
    w(&d, "crafted2", &[0x82, 0x01, 16, 17, 3, 0xe8, 16, 19, 0, 0, 0, 2, 0x92, 0x01, 0, 0, 2, 0x92, 0x02, 14, 5, 1, 0, 38, 0x90, 0x00]);
}

//! E2 `selstate` — link-state histories for the scheduler properties (C03,
//! C11, C12). Link states are only ever produced by calls the production code
//! makes and by the public fields the shell itself writes.

use proptest::collection::vec;
use proptest::prelude::*;
use serde::{Deserialize, Serialize};
use srtla_core::connection::SrtlaConnection;
use srtla_core::{ConfigSnapshot, SchedulingMode};

use crate::engine::core::{T0, apply_inbound, apply_keepalive_echo, apply_reg3, new_link};
use crate::rt::{CheckResult, idx};

pub const THRESHOLDS: &[i32] = &[32, 32, 1, 0, -1, i32::MIN, i32::MAX, 8];
pub const CEILINGS: &[u64] = &[3000, 3000, 1000, 999, 1, 0, u64::MAX, 1500];
pub const TIMEOUTS: &[u64] = &[5000, 5000, 1000, 1001, 2500, 15_000, 60_000];
pub const TARGETS: &[u64] = &[0, 0, 100_000, 1_000_000, 4_000_000, 20_000_000, 200_000_000];
pub const BITRATES: &[u32] = &[0, 0, 50_000, 99_999, 100_000, 500_000, 999_999, 1_000_000, 3_900_000, 4_000_000, 25_000_000];

#[derive(Debug, Clone, Hash, Serialize, Deserialize)]
pub enum SelOp {
    Advance(u32),
    Load(u16, u16),
    CumAck,
    Queue(u16, u8),
    FlushQ(u16),
    Inbound(u16),
    EarnedAck(u16, u8),
    Nak(u16, u16),
    KeepaliveEcho(u16, u16),
    Rtt(u16, u16),
    RttProbe(u16),
    Housekeep(u16),
    Weak(u16, bool),
    LossDeg(u16, bool),
    CcTarget(u16, u8),
    Bitrate(u16, u8),
    Reg3(u16),
    MarkRecovery(u16),
    Reconnect(u16),
    Mode(bool),
    Quality(bool),
    Guard(bool),
    Threshold(u8),
    Ceiling(u8),
    Timeout(u8),
    /// 0 = natural previous selection, 1..=4 = Some(k-1), 5 = None
    Select(u8),
    /// what a reload does to the link set: the link disappears from the vector and the previous
    /// routing choice is forgotten (apply_connection_changes)
    RemoveLink(u16),
    /// a reload adds a fresh registering link
    AddLink,
}

#[derive(Debug, Clone, Hash, Serialize, Deserialize)]
pub struct SelCase {
    pub n_links: u8,
    /// per link: 0 = never registered, 1 = REG3 now (warming), 2 = live
    pub init: Vec<u8>,
    pub classic: bool,
    pub quality: bool,
    pub guard: bool,
    pub threshold: u8,
    pub ceiling: u8,
    pub timeout: u8,
    pub ops: Vec<SelOp>,
}

fn adv() -> impl Strategy<Value = u32> {
    prop_oneof![
        6 => proptest::sample::select(vec![
            0u32, 1, 49, 50, 51, 249, 250, 251, 999, 1000, 1001, 1999, 2000, 2001, 2499, 2500, 2501, 2999, 3000, 3001, 4999, 5000, 5001,
            5999, 6000, 6001, 14_999, 15_000, 15_001, 29_999, 30_000, 30_001, 59_999, 60_000, 60_001
        ]),
        2 => 0u32..400,
        1 => 0u32..70_000,
    ]
}

pub fn op() -> impl Strategy<Value = SelOp> {
    let l = any::<u16>;
    prop_oneof![
        10 => adv().prop_map(SelOp::Advance),
        5 => (l(), prop_oneof![Just(1u16), Just(31), Just(32), Just(33), 1u16..100, Just(1000), Just(10_000)]).prop_map(|(a, b)| SelOp::Load(a, b)),
        2 => Just(SelOp::CumAck),
        3 => (l(), 1u8..20).prop_map(|(a, b)| SelOp::Queue(a, b)),
        1 => l().prop_map(SelOp::FlushQ),
        6 => l().prop_map(SelOp::Inbound),
        5 => (l(), 1u8..40).prop_map(|(a, b)| SelOp::EarnedAck(a, b)),
        4 => (l(), prop_oneof![Just(1u16), 1u16..8, 5u16..30, 100u16..200]).prop_map(|(a, b)| SelOp::Nak(a, b)),
        3 => (l(), prop_oneof![Just(0u16), 1u16..600, Just(10_000), Just(10_001)]).prop_map(|(a, b)| SelOp::KeepaliveEcho(a, b)),
        3 => (l(), prop_oneof![Just(20u16), Just(49), Just(50), Just(51), Just(199), Just(200), Just(201), Just(250), Just(750), 1u16..2500]).prop_map(|(a, b)| SelOp::Rtt(a, b)),
        2 => l().prop_map(SelOp::RttProbe),
        3 => l().prop_map(SelOp::Housekeep),
        3 => (l(), any::<bool>()).prop_map(|(a, b)| SelOp::Weak(a, b)),
        3 => (l(), any::<bool>()).prop_map(|(a, b)| SelOp::LossDeg(a, b)),
        3 => (l(), 0u8..TARGETS.len() as u8).prop_map(|(a, b)| SelOp::CcTarget(a, b)),
        3 => (l(), 0u8..BITRATES.len() as u8).prop_map(|(a, b)| SelOp::Bitrate(a, b)),
        2 => l().prop_map(SelOp::Reg3),
        1 => l().prop_map(SelOp::MarkRecovery),
        1 => l().prop_map(SelOp::Reconnect),
        1 => any::<bool>().prop_map(SelOp::Mode),
        1 => any::<bool>().prop_map(SelOp::Quality),
        2 => prop::bool::weighted(0.7).prop_map(SelOp::Guard),
        1 => (0u8..THRESHOLDS.len() as u8).prop_map(SelOp::Threshold),
        1 => (0u8..CEILINGS.len() as u8).prop_map(SelOp::Ceiling),
        1 => (0u8..TIMEOUTS.len() as u8).prop_map(SelOp::Timeout),
        14 => prop_oneof![4 => Just(0u8), 3 => 1u8..5, 1 => Just(5u8)].prop_map(SelOp::Select),
        1 => l().prop_map(SelOp::RemoveLink),
        1 => Just(SelOp::AddLink),
    ]
}

/// `force_mode`: Some(true)=classic only, Some(false)=enhanced only.
pub fn strategy(max_ops: usize, force_mode: Option<bool>) -> impl Strategy<Value = SelCase> {
    (1u8..=4).prop_flat_map(move |n| {
        (
            vec(prop_oneof![1 => Just(0u8), 3 => Just(1u8), 6 => Just(2u8)], n as usize),
            any::<bool>(),
            prop::bool::weighted(0.7),
            prop::bool::weighted(0.8),
            0u8..THRESHOLDS.len() as u8,
            0u8..CEILINGS.len() as u8,
            0u8..TIMEOUTS.len() as u8,
            vec(op(), 1..max_ops),
        )
            .prop_map(move |(init, classic, quality, guard, threshold, ceiling, timeout, mut ops)| {
                if !ops.iter().any(|o| matches!(o, SelOp::Select(_))) {
                    ops.push(SelOp::Select(0));
                }
                let classic = force_mode.unwrap_or(classic);
                if force_mode.is_some() {
                    ops.retain(|o| !matches!(o, SelOp::Mode(_)));
                }
                SelCase { n_links: n, init, classic, quality, guard, threshold, ceiling, timeout, ops }
            })
    })
}

pub struct World {
    pub links: Vec<SrtlaConnection>,
    pub cfg: ConfigSnapshot,
    pub now: u64,
    pub last_sel: Option<usize>,
    pub seq: i32,
    pub prev_select_at: Option<u64>,
    pub step: usize,
    pub next_id: usize,
    /// the harness's own record, per link: a REG3 was delivered since the link's last reset
    pub registered: Vec<bool>,
}

impl World {
    pub fn new(case: &SelCase) -> World {
        let now = T0;
        let links: Vec<SrtlaConnection> = (0..case.n_links as usize)
            .map(|i| {
                let mut c = new_link(i, now);
                match case.init.get(i).copied().unwrap_or(2) {
                    0 => {}
                    1 => apply_reg3(&mut c, now),
                    _ => {
                        apply_reg3(&mut c, now);
                        c.record_rtt_probe();
                        c.record_rtt_probe();
                    }
                }
                c
            })
            .collect();
        World {
            links,
            cfg: ConfigSnapshot {
                mode: if case.classic { SchedulingMode::Classic } else { SchedulingMode::Enhanced },
                quality_enabled: case.quality,
                stall_deselect: case.guard,
                stall_min_in_flight: THRESHOLDS[case.threshold as usize % THRESHOLDS.len()],
                stall_ack_stale_ms: CEILINGS[case.ceiling as usize % CEILINGS.len()],
                conn_timeout_ms: TIMEOUTS[case.timeout as usize % TIMEOUTS.len()],
            },
            now,
            last_sel: None,
            seq: 1,
            prev_select_at: None,
            step: 0,
            next_id: case.n_links as usize,
            registered: (0..case.n_links as usize).map(|i| case.init.get(i).copied().unwrap_or(2) != 0).collect(),
        }
    }

    /// Apply a non-select op. Returns false for `Select`.
    pub fn apply(&mut self, op: &SelOp) -> bool {
        let n = self.links.len();
        let now = self.now;
        match op {
            SelOp::Select(_) => return false,
            SelOp::Advance(d) => self.now += *d as u64,
            SelOp::Load(l, k) => {
                let c = &mut self.links[idx(*l, n)];
                for _ in 0..*k {
                    c.register_packet(self.seq, now);
                    self.seq += 1;
                }
            }
            SelOp::CumAck => {
                let a = self.seq - 1;
                for c in self.links.iter_mut() {
                    c.handle_srt_ack(a, now);
                }
            }
            SelOp::Queue(l, k) => {
                let c = &mut self.links[idx(*l, n)];
                for _ in 0..*k {
                    let mut p = [0u8; 32];
                    p[0..4].copy_from_slice(&(self.seq as u32).to_be_bytes());
                    c.queue_data_packet(&p, Some(self.seq as u32), now);
                    self.seq += 1;
                }
            }
            SelOp::FlushQ(l) => {
                let _ = self.links[idx(*l, n)].take_batch(now);
            }
            SelOp::Inbound(l) => apply_inbound(&mut self.links[idx(*l, n)], now),
            SelOp::EarnedAck(l, k) => {
                let classic = self.cfg.mode.is_classic();
                let c = &mut self.links[idx(*l, n)];
                apply_inbound(c, now);
                for _ in 0..*k {
                    c.register_packet(self.seq, now);
                    c.handle_srtla_ack_specific(self.seq, classic, now);
                    c.handle_srtla_ack_global();
                    self.seq += 1;
                }
            }
            SelOp::Nak(l, k) => {
                let c = &mut self.links[idx(*l, n)];
                for _ in 0..*k {
                    c.register_packet(self.seq, now);
                    c.handle_nak(self.seq, now);
                    self.seq += 1;
                }
            }
            SelOp::KeepaliveEcho(l, age) => {
                let c = &mut self.links[idx(*l, n)];
                if c.connected {
                    let sent_at = now.saturating_sub(*age as u64);
                    if !c.rtt.waiting_for_keepalive_response {
                        c.rtt.record_keepalive_sent(sent_at);
                    }
                    apply_keepalive_echo(c, sent_at, now);
                }
            }
            SelOp::Rtt(l, ms) => self.links[idx(*l, n)].rtt.update_estimate(*ms as u64, now),
            SelOp::RttProbe(l) => self.links[idx(*l, n)].record_rtt_probe(),
            SelOp::Housekeep(l) => {
                // the per-link part of a housekeeping pass for a link that is not timed out
                let classic = self.cfg.mode.is_classic();
                let c = &mut self.links[idx(*l, n)];
                if !c.is_timed_out(now) {
                    // keepalives as handle_housekeeping sends them (stamps last_sent / last_keepalive_sent, may arm
                    // an RTT probe)
                    if c.needs_keepalive(now) {
                        let _ = c.keepalive_packet(now);
                    }
                    if c.needs_rtt_measurement(now) {
                        let _ = c.keepalive_packet(now);
                    }
                    if !classic {
                        c.perform_window_recovery(now);
                    }
                    c.calculate_bitrate(now);
                    c.update_phase(now);
                }
            }
            SelOp::Weak(l, b) => self.links[idx(*l, n)].weak = *b,
            SelOp::LossDeg(l, b) => self.links[idx(*l, n)].loss_degraded = *b,
            SelOp::CcTarget(l, s) => self.links[idx(*l, n)].cc_target_bps = TARGETS[*s as usize % TARGETS.len()],
            SelOp::Bitrate(l, s) => self.links[idx(*l, n)].bitrate.current_bitrate_bps = BITRATES[*s as usize % BITRATES.len()] as f64,
            SelOp::Reg3(l) => {
                apply_reg3(&mut self.links[idx(*l, n)], now);
                self.registered[idx(*l, n)] = true;
            }
            SelOp::MarkRecovery(l) => {
                self.links[idx(*l, n)].mark_for_recovery();
                self.registered[idx(*l, n)] = false;
            }
            SelOp::Reconnect(l) => {
                self.registered[idx(*l, n)] = false;
                let c = &mut self.links[idx(*l, n)];
                c.reset_for_reconnect(now);
                c.mark_reconnect_success();
                c.reconnection.reset_startup_grace(now);
            }
            SelOp::RemoveLink(l) => {
                if n > 1 {
                    self.links.remove(idx(*l, n));
                    self.registered.remove(idx(*l, n));
                    self.last_sel = None;
                }
            }
            SelOp::AddLink => {
                if n < 5 {
                    self.links.push(new_link(self.next_id, now));
                    self.registered.push(false);
                    self.next_id += 1;
                }
            }
            SelOp::Mode(b) => self.cfg.mode = if *b { SchedulingMode::Classic } else { SchedulingMode::Enhanced },
            SelOp::Quality(b) => self.cfg.quality_enabled = *b,
            SelOp::Guard(b) => self.cfg.stall_deselect = *b,
            SelOp::Threshold(t) => self.cfg.stall_min_in_flight = THRESHOLDS[*t as usize % THRESHOLDS.len()],
            SelOp::Ceiling(t) => self.cfg.stall_ack_stale_ms = CEILINGS[*t as usize % CEILINGS.len()],
            SelOp::Timeout(t) => self.cfg.conn_timeout_ms = TIMEOUTS[*t as usize % TIMEOUTS.len()],
        }
        true
    }

    pub fn last_for(&self, sel: u8) -> Option<usize> {
        match sel {
            0 => self.last_sel,
            5 => None,
            k => Some(((k - 1) as usize).min(self.links.len().saturating_sub(1))),
        }
    }

    /// Independent usability predicate (C03): registered, connected, heard within the timeout.
    pub fn usable(&self, i: usize) -> bool {
        let c = &self.links[i];
        // "registered" is the harness's own fact (a REG3 was delivered since the last reset), not the code's phase
        let registered = self.registered.get(i).copied().unwrap_or(false);
        let silent = match c.last_received {
            Some(lr) => self.now.saturating_sub(lr) >= self.cfg.conn_timeout_ms,
            None => true,
        };
        registered && c.connected && !silent
    }

    /// Run all ops; `on_select` is called for every `Select` op and performs the select itself.
    pub fn run(&mut self, ops: &[SelOp], mut on_select: impl FnMut(&mut World, Option<usize>) -> CheckResult) -> CheckResult {
        for op in ops {
            self.step += 1;
            if !self.apply(op)
                && let SelOp::Select(s) = op
            {
                let last = self.last_for(*s);
                on_select(self, last)?;
                self.prev_select_at = Some(self.now);
            }
        }
        Ok(())
    }
}

//! E6 `e2e` — the real event loop. `run_sender_with_config` runs on its own
//! tokio runtime, in real time, against the cooperative receiver model on a
//! loopback socket and a harness client socket. This is the only engine that
//! reaches the code that lives inline in the `select!` loop (queue draining
//! after every arm, classifier / CC stamping, the SIGHUP arm and the deferred
//! reload, the once-per-second stats publish). Used by thorough tiers only;
//! a start-up that does not complete in time is inconclusive (exit 2), never a
//! violation.

use std::net::{IpAddr, SocketAddr, UdpSocket};
use std::path::PathBuf;
use std::sync::atomic::{AtomicBool, AtomicU64, Ordering};
use std::sync::{Arc, Mutex};
use std::time::{Duration, Instant};

use srtla_core::priority::CriticalWindow;
use srtla_send::config::DynamicConfig;
use srtla_send::net::{SourceIpBinder, UplinkBinder};
use srtla_send::stats::SharedStats;
use srtla_send::subscriptions::SubscriptionHub;

use crate::engine::shell::link_ip;
use crate::props::faultsim::Receiver;
use crate::refmodel::codec as rc;

#[derive(Default)]
pub struct RxLog {
    /// (address number, bytes, ms since start) of every non-internal datagram that reached the receiver
    pub data: Vec<(u8, Vec<u8>, u64)>,
    /// (address number, ms since start) of keepalives
    pub keepalives: Vec<(u8, u64)>,
    /// the keepalive frames themselves, parallel to `keepalives`
    pub keepalive_frames: Vec<Vec<u8>>,
    /// (address number, type, ms since start) of REG frames
    pub regs: Vec<(u8, u16, u64)>,
    /// the REG frames themselves, parallel to `regs`
    pub reg_frames: Vec<Vec<u8>>,
    /// the group id the receiver currently holds
    pub group: Option<[u8; 256]>,
    /// (ms, id) of every REG2 reply the receiver sent (a group was created)
    pub groups_created: Vec<(u64, [u8; 256])>,
    /// last source address seen per address number
    pub addr_of: std::collections::BTreeMap<u8, SocketAddr>,
    pub members: Vec<u8>,
    /// arrival order: (arrival number, address number, source port, kind, ms); kind 0 = stream/other datagram,
    /// 1 = keepalive, 2 = REG1, 3 = REG2, 4 = REG3 sent by the receiver to that address
    pub order: Vec<(u64, u8, u16, u8, u64)>,
}

/// What the cooperative receiver is told to do wrong (fault injection on the real loop).
#[derive(Default)]
pub struct RxPolicy {
    /// datagrams from these addresses are logged but neither processed nor answered (black hole)
    pub muted: std::collections::BTreeSet<u8>,
    /// this many REG1 frames are ignored (lost handshake)
    pub ignore_reg1: u32,
    /// one-shot: forget the group (Some(true): answer REG_ERR afterwards, Some(false): REG_NGP)
    pub forget: Option<bool>,
    /// every data packet arriving on these addresses is reported lost (a NAK goes back on the same link): the
    /// sender walks the link's window down, the link stays connected and heard but gets a low share
    pub nak_links: std::collections::BTreeSet<u8>,
}

pub struct E2e {
    pub rt: Option<tokio::runtime::Runtime>,
    pub rx_sock: UdpSocket,
    pub client: UdpSocket,
    pub local_port: u16,
    pub ips_path: PathBuf,
    pub ctl_path: PathBuf,
    pub config: DynamicConfig,
    pub hub: SubscriptionHub,
    pub stats: SharedStats,
    pub cw: CriticalWindow,
    pub log: Arc<Mutex<RxLog>>,
    pub policy: Arc<Mutex<RxPolicy>>,
    pub stop: Arc<AtomicBool>,
    pub start: Instant,
    pub sender_ended: Arc<AtomicBool>,
    rx_thread: Option<std::thread::JoinHandle<()>>,
    pub ack_every_ms: Arc<AtomicU64>,
}

static SCENARIO: AtomicU64 = AtomicU64::new(0);

fn addr_no(ip: IpAddr) -> u8 {
    match ip {
        IpAddr::V4(v4) => v4.octets()[3].wrapping_sub(10),
        _ => 255,
    }
}

impl E2e {
    pub fn write_ips(&self, addrs: &[u8]) {
        let text: String = addrs.iter().map(|k| format!("{}\n", link_ip(*k))).collect();
        std::fs::write(&self.ips_path, text).expect("write ips file");
    }

    /// Start a sender on address numbers `addrs` with `config`; returns once every link is a receiver member,
    /// or None if that does not happen within `wait` (inconclusive).
    pub fn start(addrs: &[u8], config: DynamicConfig, wait: Duration) -> Option<E2e> {
        Self::start_with(addrs, config, wait, RxPolicy::default())
    }

    pub fn start_with(addrs: &[u8], config: DynamicConfig, wait: Duration, policy: RxPolicy) -> Option<E2e> {
        let e = Self::start_raw(addrs, config, policy)?;
        // wait for establishment
        let t0 = Instant::now();
        loop {
            let members = e.log.lock().unwrap().members.clone();
            if addrs.iter().all(|a| members.contains(a)) {
                break;
            }
            if t0.elapsed() > wait || e.sender_ended.load(Ordering::Acquire) {
                return None;
            }
            std::thread::sleep(Duration::from_millis(20));
        }
        // let the REG3s land and one keepalive round pass
        std::thread::sleep(Duration::from_millis(300));
        Some(e)
    }

    /// Start the sender and return at once (the handshake itself is under observation).
    pub fn start_raw(addrs: &[u8], config: DynamicConfig, policy: RxPolicy) -> Option<E2e> {
        // a SIGHUP raised before the sender has installed its own listener must not terminate the process
        extern "C" fn ignore_hup(_: libc::c_int) {}
        static HUP_ONCE: std::sync::Once = std::sync::Once::new();
        HUP_ONCE.call_once(|| unsafe {
            libc::signal(libc::SIGHUP, ignore_hup as *const () as usize);
        });
        let k = SCENARIO.fetch_add(1, Ordering::Relaxed);
        let dir = crate::rt::verif_dir().join("harness").join("target");
        let _ = std::fs::create_dir_all(&dir);
        let ips_path = dir.join(format!("e2e-{}-{k}.ips", std::process::id()));
        let ctl_path = dir.join(format!("e2e-{}-{k}.sock", std::process::id()));
        let rx_sock = UdpSocket::bind("127.0.0.1:0").ok()?;
        rx_sock.set_read_timeout(Some(Duration::from_millis(10))).ok()?;
        let rx_port = rx_sock.local_addr().ok()?.port();
        let client = UdpSocket::bind("127.0.0.1:0").ok()?;
        client.set_read_timeout(Some(Duration::from_millis(10))).ok()?;
        // the harness must not drop by itself: large receive buffers on both harness sockets
        for fd in [std::os::fd::AsRawFd::as_raw_fd(&client), std::os::fd::AsRawFd::as_raw_fd(&rx_sock)] {
            let sz: libc::c_int = 4 * 1024 * 1024;
            unsafe {
                libc::setsockopt(fd, libc::SOL_SOCKET, libc::SO_RCVBUF, &sz as *const _ as *const libc::c_void, std::mem::size_of::<libc::c_int>() as libc::socklen_t);
            }
        }
        let local_port = {
            let probe = UdpSocket::bind("[::]:0").ok()?;
            probe.local_addr().ok()?.port()
        };
        let log = Arc::new(Mutex::new(RxLog::default()));
        let policy = Arc::new(Mutex::new(policy));
        let stop = Arc::new(AtomicBool::new(false));
        let start = Instant::now();
        let ack_every_ms = Arc::new(AtomicU64::new(50));
        // receiver thread
        let rx_thread = {
            let sock = rx_sock.try_clone().ok()?;
            let log = log.clone();
            let policy = policy.clone();
            let stop = stop.clone();
            let ack_every = ack_every_ms.clone();
            let n = 64usize;
            std::thread::spawn(move || {
                let mut rx = Receiver::new(n);
                let mut buf = [0u8; 2048];
                let mut last_ack = Instant::now();
                let mut arrival = 0u64;
                while !stop.load(Ordering::Acquire) {
                    let now = start.elapsed().as_millis() as u64 + 1;
                    if let Some(err) = policy.lock().unwrap().forget.take() {
                        rx.forget(err);
                    }
                    if let Ok((len, src)) = sock.recv_from(&mut buf) {
                        let a = addr_no(src.ip());
                        if (a as usize) < n {
                            let b = &buf[..len];
                            arrival += 1;
                            let skip = {
                                let mut lg = log.lock().unwrap();
                                lg.addr_of.insert(a, src);
                                let kind = match rc::packet_type(b) {
                                    Some(rc::T_KEEPALIVE) => {
                                        lg.keepalives.push((a, now));
                                        lg.keepalive_frames.push(b.to_vec());
                                        1
                                    }
                                    Some(t @ (rc::T_REG1 | rc::T_REG2)) => {
                                        lg.regs.push((a, t, now));
                                        lg.reg_frames.push(b.to_vec());
                                        if t == rc::T_REG1 { 2 } else { 3 }
                                    }
                                    _ => {
                                        lg.data.push((a, b.to_vec(), now));
                                        0
                                    }
                                };
                                lg.order.push((arrival, a, src.port(), kind, now));
                                let mut pol = policy.lock().unwrap();
                                if pol.muted.contains(&a) {
                                    true
                                } else if kind == 2 && pol.ignore_reg1 > 0 {
                                    pol.ignore_reg1 -= 1;
                                    true
                                } else {
                                    false
                                }
                            };
                            if skip {
                                continue;
                            }
                            if let Some(sq) = rc::srt_seq(b)
                                && b.len() >= 16
                                && policy.lock().unwrap().nak_links.contains(&a)
                            {
                                let mut nak = vec![0x80u8, 0x03, 0, 0];
                                nak.extend_from_slice(&sq.to_be_bytes());
                                let _ = sock.send_to(&nak, src);
                            }
                            for r in rx.on_datagram(a, b, now) {
                                if r.len() == 258 && r[0] == 0x92 && r[1] == 0x01 {
                                    let mut id = [0u8; 256];
                                    id.copy_from_slice(&r[2..]);
                                    log.lock().unwrap().groups_created.push((now, id));
                                }
                                if r.len() == 2 && r[0] == 0x92 && r[1] == 0x02 {
                                    arrival += 1;
                                    log.lock().unwrap().order.push((arrival, a, src.port(), 4, now));
                                }
                                let _ = sock.send_to(&r, src);
                            }
                            {
                                let mut lg = log.lock().unwrap();
                                lg.members = rx.members.iter().copied().collect();
                                lg.group = rx.group;
                            }
                        }
                    }
                    // cumulative SRT ACK keeps in-flight bounded
                    let every = ack_every.load(Ordering::Relaxed);
                    if every > 0 && last_ack.elapsed().as_millis() as u64 >= every {
                        last_ack = Instant::now();
                        if let (Some(h), Some(l)) = (rx.highest_seq, rx.last_data_link)
                            && !policy.lock().unwrap().muted.contains(&l)
                        {
                            let mut p = vec![0u8; 44];
                            p[0] = 0x80;
                            p[1] = 0x02;
                            p[16..20].copy_from_slice(&h.to_be_bytes());
                            if let Some(dst) = log.lock().unwrap().addr_of.get(&l).copied() {
                                let _ = sock.send_to(&p, dst);
                            }
                        }
                    }
                }
            })
        };
        let rt = tokio::runtime::Builder::new_multi_thread().worker_threads(2).enable_all().build().ok()?;
        let hub = SubscriptionHub::new();
        let stats = SharedStats::new();
        let cw = CriticalWindow::new();
        let sender_ended = Arc::new(AtomicBool::new(false));
        let e = E2e {
            rt: Some(rt),
            rx_sock,
            client,
            local_port,
            ips_path,
            ctl_path,
            config,
            hub,
            stats,
            cw,
            log,
            policy,
            stop,
            start,
            sender_ended,
            rx_thread: Some(rx_thread),
            ack_every_ms,
        };
        e.write_ips(addrs);
        {
            let ips = e.ips_path.to_str()?.to_string();
            let cfg = e.config.clone();
            let st = e.stats.clone();
            let cw = e.cw.clone();
            let hub = e.hub.clone();
            let ended = e.sender_ended.clone();
            let binder: Arc<dyn UplinkBinder> = Arc::new(SourceIpBinder);
            e.rt.as_ref()?.spawn(async move {
                let r = srtla_send::sender::run_sender_with_config(local_port, "127.0.0.1", rx_port, &ips, cfg, st, cw, hub, binder).await;
                if let Err(err) = r {
                    eprintln!("e2e: sender ended: {err}");
                }
                ended.store(true, Ordering::Release);
            });
            let path = e.ctl_path.to_str()?.to_string();
            let (cfg, st, cw, hub) = (e.config.clone(), e.stats.clone(), e.cw.clone(), e.hub.clone());
            e.rt.as_ref()?.spawn(async move {
                let _ = srtla_send::control_socket::spawn(path, cfg, st, cw, hub).await;
            });
        }
        Some(e)
    }

    pub fn ms(&self) -> u64 {
        self.start.elapsed().as_millis() as u64 + 1
    }

    /// Send one client datagram to the sender's local SRT port.
    pub fn client_send(&self, bytes: &[u8]) {
        let _ = self.client.send_to(bytes, ("127.0.0.1", self.local_port));
    }

    /// Send a datagram from the receiver to the uplink with address number `a`.
    pub fn rx_send(&self, a: u8, bytes: &[u8]) -> bool {
        let dst = self.log.lock().unwrap().addr_of.get(&a).copied();
        match dst {
            Some(d) => self.rx_sock.send_to(bytes, d).is_ok(),
            None => false,
        }
    }

    /// Everything the sender relayed to the client socket so far.
    pub fn client_drain(&self, for_ms: u64, until: impl Fn(&[Vec<u8>]) -> bool) -> Vec<Vec<u8>> {
        let mut out = Vec::new();
        let t0 = Instant::now();
        let mut buf = [0u8; 2048];
        while (t0.elapsed().as_millis() as u64) < for_ms {
            if let Ok((n, _)) = self.client.recv_from(&mut buf) {
                out.push(buf[..n].to_vec());
                if until(&out) {
                    break;
                }
            }
        }
        out
    }

    pub fn wait_until(&self, max: Duration, f: impl Fn(&RxLog) -> bool) -> bool {
        let t0 = Instant::now();
        loop {
            if f(&self.log.lock().unwrap()) {
                return true;
            }
            if t0.elapsed() > max {
                return false;
            }
            std::thread::sleep(Duration::from_millis(10));
        }
    }

    /// Deliver SIGHUP to this process (the sender's reload arm listens for it).
    pub fn sighup(&self) {
        unsafe {
            libc::raise(libc::SIGHUP);
        }
    }
}

impl Drop for E2e {
    fn drop(&mut self) {
        self.stop.store(true, Ordering::Release);
        if let Some(rt) = self.rt.take() {
            rt.shutdown_background();
        }
        if let Some(t) = self.rx_thread.take() {
            let _ = t.join();
        }
        let _ = std::fs::remove_file(&self.ips_path);
        let _ = std::fs::remove_file(&self.ctl_path);
    }
}

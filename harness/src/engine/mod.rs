pub mod core;
pub mod e2e;
pub mod selstate;
pub mod shell;

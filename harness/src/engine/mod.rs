pub mod core;
pub mod shell;

pub mod core;
pub mod selstate;
pub mod shell;

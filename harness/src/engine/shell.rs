//! E3 `shellsim` — the harness is the event loop.
//!
//! Drives the real production arms (`handle_srt_packet`, `handle_uplink_packet`,
//! `flush_all_batches`, `handle_housekeeping`, `apply_connection_changes`) over
//! real loopback sockets on a virtual clock (`verif_set_now_ms`). The harness
//! owns the schedule, the clock, the network and the receiver.

use std::collections::HashMap;
use std::net::{IpAddr, Ipv4Addr, SocketAddr, UdpSocket as StdUdp};
use std::os::fd::AsRawFd;
use std::sync::Arc;

use smallvec::SmallVec;
use srtla_core::ConfigSnapshot;
use srtla_core::connection::SrtlaConnection;
use srtla_core::priority::CriticalWindow;
use srtla_core::registration::SrtlaRegistrationManager;
use srtla_core::selection::classifier::WeakLinkFilter;
use srtla_core::selection::link_cc::{CcState, LinkCcController};
use srtla_send::net::{SourceIpBinder, UplinkBinder};
use srtla_send::sender::verif_hooks as vh;
use srtla_send::sender::{ConnIoMap, SequenceTracker, apply_connection_changes, create_connections_from_ips};
use tokio::net::UdpSocket;
use tokio::sync::mpsc::{UnboundedReceiver, UnboundedSender};

pub const T0: u64 = 1_700_000_000_000;

pub fn link_ip(k: u8) -> IpAddr {
    IpAddr::V4(Ipv4Addr::new(127, 0, 0, 10 + k))
}

/// One datagram observed on the harness receiver socket.
#[derive(Debug, Clone)]
pub struct WireEvt {
    /// address number of the uplink it came from (127.0.0.(10+addr))
    pub addr: u8,
    /// source port (changes when the uplink's socket is replaced by a reconnect)
    pub port: u16,
    pub bytes: Vec<u8>,
}

pub struct State {
    pub now: u64,
    pub conns: SmallVec<SrtlaConnection, 4>,
    pub conn_io: ConnIoMap,
    pub reg: SrtlaRegistrationManager,
    pub listener: Arc<UdpSocket>,
    pub client: StdUdp,
    pub client_addr: SocketAddr,
    pub old_clients: Vec<StdUdp>,
    pub rx: StdUdp,
    pub rx_port: u16,
    pub last_selected: Option<usize>,
    pub seq_tracker: SequenceTracker,
    pub last_client_addr: Option<SocketAddr>,
    pub all_failed_at: Option<u64>,
    pub readers: HashMap<u64, vh::ReaderHandle>,
    pub packet_tx: UnboundedSender<vh::UplinkPacket>,
    pub packet_rx: UnboundedReceiver<vh::UplinkPacket>,
    pub instant_tx: UnboundedSender<(SocketAddr, SmallVec<u8, 64>)>,
    pub instant_rx: UnboundedReceiver<(SocketAddr, SmallVec<u8, 64>)>,
    pub cfg: ConfigSnapshot,
    pub critical: CriticalWindow,
    pub weak_filter: WeakLinkFilter,
    pub cc: LinkCcController,
    pub binder: Arc<dyn UplinkBinder>,
    /// the receiver's host as given on the command line, and whether a requested name had to be replaced
    pub host: String,
    pub host_fallback: bool,
    pub faulty: Arc<FaultyBinder>,
    recv_buf: Vec<u8>,
    /// datagrams handed to the instant-forward channel (production forwards them to the client)
    pub instant_forwarded: Vec<Vec<u8>>,
    pub housekeeping_error: Option<String>,
    /// last keepalive frame seen on the wire per address number (captured by `drain_wire`)
    pub last_keepalive: HashMap<u8, Vec<u8>>,
}

pub struct Shell {
    pub rt: tokio::runtime::Runtime,
    pub st: State,
}

/// The shell's uplink binder: the production `SourceIpBinder`, plus two things a harness needs - a log of every
/// bind call (a socket is being opened for that address) and a set of addresses whose bind is refused (fault:
/// the source address is gone).
#[derive(Default)]
pub struct FaultyBinder {
    pub refuse: std::sync::Mutex<std::collections::BTreeSet<IpAddr>>,
    pub calls: std::sync::Mutex<Vec<IpAddr>>,
}

impl UplinkBinder for FaultyBinder {
    fn bind(&self, sock: &socket2::Socket, ip: IpAddr) -> anyhow::Result<()> {
        self.calls.lock().unwrap().push(ip);
        if self.refuse.lock().unwrap().contains(&ip) {
            return Err(anyhow::anyhow!("bind refused (injected: source address unavailable)"));
        }
        SourceIpBinder.bind(sock, ip)
    }
}

fn big_rcvbuf(s: &StdUdp) {
    let sz: libc::c_int = 4 * 1024 * 1024;
    unsafe {
        libc::setsockopt(
            s.as_raw_fd(),
            libc::SOL_SOCKET,
            libc::SO_RCVBUF,
            &sz as *const _ as *const libc::c_void,
            std::mem::size_of::<libc::c_int>() as libc::socklen_t,
        );
    }
}

impl Shell {
    /// Build a shell with uplinks on address numbers `addrs` (in list order),
    /// exactly as `run_sender_with_config` does up to the event loop:
    /// connections from IPs, listener, registration manager. Start-up probing
    /// and the initial housekeeping pass are separate calls so that a property
    /// can choose to run them (`start_probing`, `housekeeping`).
    pub fn new(addrs: &[u8], cfg: ConfigSnapshot) -> Shell {
        Self::new_with_host(addrs, cfg, "127.0.0.1")
    }

    /// `host`: how the receiver is named on the command line ("127.0.0.1", or a name such as "localhost"; the name
    /// is used only where it resolves to 127.0.0.1 first - otherwise the literal is used and `host_fallback` is set).
    pub fn new_with_host(addrs: &[u8], cfg: ConfigSnapshot, host: &str) -> Shell {
        let resolves = host == "127.0.0.1" || {
            use std::net::ToSocketAddrs;
            (host, 1u16).to_socket_addrs().ok().and_then(|mut a| a.next()).is_some_and(|a| a.ip() == IpAddr::V4(std::net::Ipv4Addr::LOCALHOST))
        };
        let host_fallback = !resolves;
        let host = if resolves { host.to_string() } else { "127.0.0.1".to_string() };
        let rt = tokio::runtime::Builder::new_current_thread()
            .enable_io()
            .enable_time()
            .build()
            .expect("runtime");
        srtla_core::utils::verif_set_now_ms(Some(T0));
        let rx = StdUdp::bind("127.0.0.1:0").expect("bind rx");
        rx.set_nonblocking(true).unwrap();
        big_rcvbuf(&rx);
        let rx_port = rx.local_addr().unwrap().port();
        let client = StdUdp::bind("127.0.0.1:0").expect("bind client");
        client.set_nonblocking(true).unwrap();
        big_rcvbuf(&client);
        let client_addr = client.local_addr().unwrap();
        let faulty = Arc::new(FaultyBinder::default());
        let binder: Arc<dyn UplinkBinder> = faulty.clone();
        let ips: Vec<IpAddr> = addrs.iter().map(|k| link_ip(*k)).collect();
        let (conns, conn_io, listener) = rt.block_on(async {
            let mut conn_io: ConnIoMap = HashMap::new();
            let conns = create_connections_from_ips(&ips, &host, rx_port, &binder, &mut conn_io).await;
            let listener = UdpSocket::bind("127.0.0.1:0").await.expect("bind listener");
            (conns, conn_io, Arc::new(listener))
        });
        assert_eq!(conns.len(), addrs.len(), "all uplinks must bind on loopback aliases");
        let (packet_tx, packet_rx) = vh::create_uplink_channel();
        let (instant_tx, instant_rx) = tokio::sync::mpsc::unbounded_channel();
        Shell {
            rt,
            st: State {
                now: T0,
                conns,
                conn_io,
                reg: SrtlaRegistrationManager::new(),
                listener,
                client,
                client_addr,
                old_clients: Vec::new(),
                rx,
                rx_port,
                last_selected: None,
                seq_tracker: SequenceTracker::new(),
                last_client_addr: None,
                all_failed_at: None,
                readers: HashMap::new(),
                packet_tx,
                packet_rx,
                instant_tx,
                instant_rx,
                cfg,
                critical: CriticalWindow::new(),
                weak_filter: WeakLinkFilter::new(),
                cc: LinkCcController::new(),
                binder,
                host,
                host_fallback,
                faulty,
                recv_buf: vec![0u8; srtla_protocol::MTU],
                instant_forwarded: Vec::new(),
                housekeeping_error: None,
                last_keepalive: HashMap::new(),
            },
        }
    }

    pub fn now(&self) -> u64 {
        self.st.now
    }

    pub fn advance(&mut self, dt: u64) {
        self.st.now += dt;
        srtla_core::utils::verif_set_now_ms(Some(self.st.now));
    }

    pub fn sync_clock(&self) {
        srtla_core::utils::verif_set_now_ms(Some(self.st.now));
    }

    /// index of the link with address number `addr` in the connections vector
    pub fn idx_of(&self, addr: u8) -> Option<usize> {
        let ip = link_ip(addr);
        self.st.conns.iter().position(|c| c.local_ip == ip)
    }

    pub fn addr_of(&self, idx: usize) -> u8 {
        match self.st.conns[idx].local_ip {
            IpAddr::V4(v4) => v4.octets()[3].wrapping_sub(10),
            _ => 255,
        }
    }

    /// Start-up probing as `run_sender_with_config` performs it.
    pub fn start_probing(&mut self) {
        self.sync_clock();
        let Shell { rt, st } = self;
        rt.block_on(async {
            let probes = st.reg.start_probing(&mut st.conns, st.now);
            for (idx, pkt) in probes {
                if let Some(conn) = st.conns.get(idx)
                    && let Some(io) = st.conn_io.get(&conn.conn_id)
                {
                    let _ = io.socket.send(&pkt).await;
                }
            }
        });
    }

    /// A datagram from the local SRT endpoint (the `recv_from` arm).
    pub fn client_pkt(&mut self, bytes: &[u8]) {
        self.sync_clock();
        let Shell { rt, st } = self;
        let n = bytes.len().min(st.recv_buf.len());
        st.recv_buf[..n].copy_from_slice(&bytes[..n]);
        let registration_complete = st.reg.has_connected;
        let src = st.client_addr;
        rt.block_on(vh::handle_srt_packet(
            Ok((n, src)),
            &mut st.recv_buf,
            &mut st.conns,
            &st.conn_io,
            &mut st.last_selected,
            &mut st.seq_tracker,
            &mut st.last_client_addr,
            registration_complete,
            &st.cfg,
            &st.critical,
        ));
    }

    /// A datagram arriving on the uplink with index `idx` (the `packet_rx` arm).
    pub fn uplink_pkt(&mut self, idx: usize, bytes: &[u8]) {
        self.sync_clock();
        let Shell { rt, st } = self;
        let Some(conn) = st.conns.get(idx) else { return };
        let packet = vh::UplinkPacket {
            conn_id: conn.conn_id,
            bytes: SmallVec::from_slice_copy(bytes),
        };
        rt.block_on(vh::handle_uplink_packet(
            packet,
            &mut st.conns,
            &st.conn_io,
            &mut st.reg,
            &st.instant_tx,
            st.last_client_addr,
            &st.listener,
            &st.seq_tracker,
            &st.cfg,
        ));
        while let Ok((_, p)) = st.instant_rx.try_recv() {
            st.instant_forwarded.push(p.to_vec());
        }
    }

    /// Enqueue a datagram on the uplink channel exactly as a reader task does.
    pub fn enqueue_uplink(&mut self, idx: usize, bytes: &[u8]) {
        if let Some(conn) = self.st.conns.get(idx) {
            let _ = self.st.packet_tx.send(vh::UplinkPacket { conn_id: conn.conn_id, bytes: SmallVec::from_slice_copy(bytes) });
        }
    }

    /// Refuse (or allow again) every later attempt to open a socket for the address of link `idx`.
    pub fn refuse_bind(&mut self, idx: usize, on: bool) {
        if let Some(c) = self.st.conns.get(idx) {
            let mut r = self.st.faulty.refuse.lock().unwrap();
            if on {
                r.insert(c.local_ip);
            } else {
                r.remove(&c.local_ip);
            }
        }
    }

    /// The addresses a socket was opened (or tried to be opened) for since the last call.
    pub fn take_bind_calls(&mut self) -> Vec<IpAddr> {
        std::mem::take(&mut *self.st.faulty.calls.lock().unwrap())
    }

    /// Spawn the real reader task of every link on the shell's (current-thread) runtime, as the loop's
    /// `sync_readers` does. The tasks only run while the shell blocks on its runtime (`pump`).
    pub fn sync_readers(&mut self) {
        let Shell { rt, st } = self;
        let _g = rt.enter();
        vh::sync_readers(&st.conns, &st.conn_io, &mut st.readers, &st.packet_tx);
    }

    /// A datagram from the receiver socket to the current socket of link `idx` (through the kernel).
    pub fn rx_send_link(&self, idx: usize, bytes: &[u8]) -> bool {
        let port = self.local_port(idx);
        let Some(c) = self.st.conns.get(idx) else { return false };
        port != 0 && self.st.rx.send_to(bytes, (c.local_ip, port)).is_ok()
    }

    /// A datagram from the receiver socket to an arbitrary port of link `idx`'s address.
    pub fn rx_send_port(&self, idx: usize, port: u16, bytes: &[u8]) -> bool {
        let Some(c) = self.st.conns.get(idx) else { return false };
        self.st.rx.send_to(bytes, (c.local_ip, port)).is_ok()
    }

    /// Let the spawned tasks (reader tasks) run: block on the runtime for `ms` of real time.
    pub fn pump(&mut self, ms: u64) {
        self.rt.block_on(async move { tokio::time::sleep(std::time::Duration::from_millis(ms)).await });
    }

    /// One bounded drain pass of the uplink channel (what every event-loop arm ends with).
    pub fn drain_queue(&mut self) {
        self.sync_clock();
        let Shell { rt, st } = self;
        rt.block_on(vh::drain_packet_queue(
            &mut st.packet_rx,
            &mut st.conns,
            &st.conn_io,
            &mut st.reg,
            &st.instant_tx,
            st.last_client_addr,
            &st.listener,
            &st.seq_tracker,
            &st.cfg,
        ));
        while let Ok((_, p)) = st.instant_rx.try_recv() {
            st.instant_forwarded.push(p.to_vec());
        }
    }

    /// The 15 ms batch flush arm.
    pub fn flush_tick(&mut self) {
        self.sync_clock();
        let Shell { rt, st } = self;
        rt.block_on(vh::flush_all_batches(&mut st.conns, &st.conn_io));
    }

    /// The housekeeping arm: real `handle_housekeeping`, then the classifier /
    /// CC stamping block of the loop body (copied: it is inline in the loop).
    pub fn housekeeping(&mut self) -> bool {
        self.sync_clock();
        let Shell { rt, st } = self;
        let classic = st.cfg.mode.is_classic();
        let res = rt.block_on(vh::handle_housekeeping(
            &mut st.conns,
            &mut st.conn_io,
            &mut st.reg,
            classic,
            st.now,
            &mut st.all_failed_at,
            &mut st.readers,
            &st.packet_tx,
        ));
        let ok = match res {
            Ok(()) => true,
            Err(e) => {
                st.housekeeping_error = Some(e.to_string());
                false
            }
        };
        let classification = st.weak_filter.classify(&st.conns);
        let snaps = st.cc.tick_all(&st.conns, st.now);
        for conn in st.conns.iter_mut() {
            conn.weak = classification
                .per_link
                .iter()
                .find(|e| e.conn_id == conn.conn_id)
                .map(|e| e.weak)
                .unwrap_or(false);
            let s = snaps.get(&conn.conn_id);
            conn.cc_backing_off = s.map(|s| s.state == CcState::BackingOff).unwrap_or(false);
            conn.cc_target_bps = s.map(|s| s.target_bps).unwrap_or(0);
            conn.loss_degraded = s.map(|s| s.loss_degraded).unwrap_or(false);
        }
        ok
    }

    /// Only the real `handle_housekeeping` (no classifier / CC stamping).
    pub fn housekeeping_core(&mut self) -> bool {
        self.sync_clock();
        let Shell { rt, st } = self;
        let classic = st.cfg.mode.is_classic();
        rt.block_on(vh::handle_housekeeping(
            &mut st.conns,
            &mut st.conn_io,
            &mut st.reg,
            classic,
            st.now,
            &mut st.all_failed_at,
            &mut st.readers,
            &st.packet_tx,
        ))
        .is_ok()
    }

    /// Apply a new address list through the real `apply_connection_changes`.
    pub fn apply_ips(&mut self, addrs: &[IpAddr]) {
        self.sync_clock();
        let Shell { rt, st } = self;
        let port = st.rx_port;
        let host = st.host.clone();
        rt.block_on(apply_connection_changes(
            &mut st.conns,
            &mut st.conn_io,
            addrs,
            &host,
            port,
            &mut st.last_selected,
            &mut st.seq_tracker,
            &st.binder,
        ));
    }

    /// Everything the uplinks put on the wire since the last drain.
    pub fn drain_wire(&mut self) -> Vec<WireEvt> {
        let mut out = Vec::new();
        let mut buf = [0u8; 2048];
        loop {
            match self.st.rx.recv_from(&mut buf) {
                Ok((n, src)) => {
                    let addr = match src.ip() {
                        IpAddr::V4(v4) => v4.octets()[3].wrapping_sub(10),
                        _ => 255,
                    };
                    if n >= 2 && buf[0] == 0x90 && buf[1] == 0x00 {
                        self.st.last_keepalive.insert(addr, buf[..n].to_vec());
                    }
                    out.push(WireEvt {
                        addr,
                        port: src.port(),
                        bytes: buf[..n].to_vec(),
                    });
                }
                Err(_) => break,
            }
        }
        out
    }

    /// The SRT client goes away and comes back from a new source port (an encoder restart): a new harness socket
    /// takes its place; the old one is kept open so that what is still sent to it can be counted.
    pub fn switch_client(&mut self) {
        let client = StdUdp::bind("127.0.0.1:0").expect("bind client");
        client.set_nonblocking(true).unwrap();
        big_rcvbuf(&client);
        self.st.client_addr = client.local_addr().unwrap();
        let old = std::mem::replace(&mut self.st.client, client);
        self.st.old_clients.push(old);
    }

    /// Datagrams that arrived on the sockets of earlier client incarnations since the last call.
    pub fn drain_old_clients(&mut self) -> usize {
        let mut k = 0;
        let mut buf = [0u8; 2048];
        for c in &self.st.old_clients {
            while c.recv_from(&mut buf).is_ok() {
                k += 1;
            }
        }
        k
    }

    /// Everything delivered to the SRT client since the last drain.
    pub fn drain_client(&mut self) -> Vec<Vec<u8>> {
        let mut out = Vec::new();
        let mut buf = [0u8; 2048];
        while let Ok((n, _)) = self.st.client.recv_from(&mut buf) {
            out.push(buf[..n].to_vec());
        }
        out.append(&mut self.st.instant_forwarded);
        out
    }

    /// Local port of the uplink's current socket (0 if unknown).
    pub fn local_port(&self, idx: usize) -> u16 {
        self.st
            .conns
            .get(idx)
            .and_then(|c| self.st.conn_io.get(&c.conn_id))
            .and_then(|io| io.socket.get_ref().local_addr().ok())
            .and_then(|a| a.as_socket())
            .map(|a| a.port())
            .unwrap_or(0)
    }

    /// Fault: make every later send on this uplink's current socket fail
    /// (EPIPE) — `shutdown(fd, SHUT_WR)` on the connected UDP socket.
    pub fn break_socket(&mut self, idx: usize) -> bool {
        let Some(conn) = self.st.conns.get(idx) else { return false };
        let Some(io) = self.st.conn_io.get(&conn.conn_id) else { return false };
        let fd = io.socket.as_raw_fd();
        unsafe { libc::shutdown(fd, libc::SHUT_WR) == 0 }
    }

    /// Deliver a bare REG3 on link `idx` through the real uplink path.
    pub fn deliver_reg3(&mut self, idx: usize) {
        self.uplink_pkt(idx, &[0x92, 0x02]);
    }

    /// Bring all links up the short way: REG3 on each link through the real
    /// `handle_uplink_packet` (the production state change for REG3 does not
    /// depend on the registration manager's state).
    pub fn establish_all(&mut self) {
        for i in 0..self.st.conns.len() {
            self.deliver_reg3(i);
        }
        let _ = self.drain_wire();
        let _ = self.drain_client();
    }
}

impl Drop for Shell {
    fn drop(&mut self) {
        srtla_core::utils::verif_set_now_ms(None);
    }
}

//! E1 helpers: generated clocks and link construction through the calls the
//! production shell makes (no field poking beyond what the shell itself writes).

use std::net::{IpAddr, Ipv4Addr};

use proptest::prelude::*;
use srtla_core::connection::SrtlaConnection;

pub const T0: u64 = 1_700_000_000_000;

/// Edge-biased clock deltas (ms) around every deadline the code compares against.
pub fn delta_ms() -> impl Strategy<Value = u32> {
    const EDGES: &[u32] = &[
        0, 1, 2, 14, 15, 16, 49, 50, 51, 249, 250, 251, 299, 300, 301, 499, 500, 501, 999, 1000,
        1001, 1999, 2000, 2001, 2999, 3000, 3001, 3999, 4000, 4001, 4999, 5000, 5001, 6999, 7000,
        7001, 9999, 10_000, 10_001, 15_000, 29_999, 30_000, 30_001, 60_000, 120_000,
    ];
    prop_oneof![
        5 => proptest::sample::select(EDGES.to_vec()),
        2 => 0u32..100,
        2 => 0u32..3000,
        1 => 0u32..70_000,
    ]
}

/// Short deltas (traffic time-scale).
pub fn small_delta_ms() -> impl Strategy<Value = u32> {
    prop_oneof![
        4 => proptest::sample::select(vec![0u32, 1, 2, 5, 14, 15, 16, 49, 50, 51, 100, 249, 250, 251]),
        2 => 0u32..40,
        1 => 0u32..1200,
    ]
}

/// A fresh link in the Registering phase, exactly as `connect_uplink` builds it.
pub fn new_link(i: usize, now: u64) -> SrtlaConnection {
    let ip = IpAddr::V4(Ipv4Addr::new(127, 0, 0, 10 + i as u8));
    SrtlaConnection::new_registering(0x1000 + i as u64, format!("rx:5000 via {ip}"), ip, now)
}

/// The state changes `process_uplink_packet` performs when REG3 arrives.
pub fn apply_reg3(c: &mut SrtlaConnection, now: u64) {
    c.clear_pre_registration_state(now);
    c.connected = true;
    c.last_received = Some(now);
    if c.reconnection.connection_established_ms == 0 {
        c.reconnection.connection_established_ms = now;
    }
    c.reconnection.mark_success(&c.label.clone());
}

/// The state change `process_uplink_packet` performs for any non-registration
/// datagram of >= 2 bytes: the liveness stamp.
pub fn apply_inbound(c: &mut SrtlaConnection, now: u64) {
    c.last_received = Some(now);
}

/// What the shell does for an accepted keepalive echo: RTT sample, warming
/// probe count and the delivery-proof stamp.
pub fn apply_keepalive_echo(c: &mut SrtlaConnection, sent_at: u64, now: u64) -> bool {
    let pkt = srtla_protocol::create_keepalive_packet(sent_at);
    c.last_received = Some(now);
    let label = c.label.clone();
    if c.rtt.handle_keepalive_response(&pkt, &label, now).is_some() {
        c.record_rtt_probe();
        c.last_ack_or_rtt_sample_ms = now;
        true
    } else {
        false
    }
}

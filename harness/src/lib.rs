//! vcheck library: engines, reference models, property checks and the byte-level
//! entry points shared with the cargo-fuzz targets (see /verif/DESIGN.md).
#![allow(dead_code)]

#[macro_use]
pub mod rt;
pub mod corpus;
pub mod engine;
pub mod fuzz_entry;
pub mod fuzzrun;
pub mod props;
pub mod refmodel;

//! Byte-level entry points: each decodes raw fuzzer bytes into a structured case
//! and runs the same oracle the proptest tiers use. Shared by the cargo-fuzz
//! targets (fuzz/) and by `vcheck <ID> --replay <artifact>`.

use crate::props::{c09, c15, c18};
use crate::rt::{CheckResult, Obs};

struct Cur<'a> {
    d: &'a [u8],
    i: usize,
}

impl<'a> Cur<'a> {
    fn u8(&mut self) -> Option<u8> {
        let v = self.d.get(self.i).copied();
        self.i += 1;
        v
    }
    fn u16(&mut self) -> Option<u16> {
        Some(((self.u8()? as u16) << 8) | self.u8()? as u16)
    }
    fn u32(&mut self) -> Option<u32> {
        Some(((self.u16()? as u32) << 16) | self.u16()? as u32)
    }
    fn bytes(&mut self, n: usize) -> Vec<u8> {
        let end = (self.i + n).min(self.d.len());
        let s = self.i.min(self.d.len());
        self.i = end;
        self.d[s..end].to_vec()
    }
}

/// C15: the bytes are a datagram for every decoder; the first bytes also drive the builders.
pub fn c15(data: &[u8]) -> CheckResult {
    let mut o = Obs::default();
    c15::check_bytes(data, &mut o)?;
    if data.len() >= 33 {
        let f = |i: usize| u32::from_be_bytes([data[i], data[i + 1], data[i + 2], data[i + 3]]);
        let now = u64::from_be_bytes(data[24..32].try_into().unwrap());
        c15::check_built(
            &c15::Built::KeepaliveExt { conn_id: f(0), window: f(4) as i32, in_flight: f(8) as i32, rtt_ms: f(12), nak: f(16), rate: f(20), now },
            &mut Obs::default(),
        )?;
        let list: Vec<u32> = data[32..].chunks_exact(4).take(200).map(|c| u32::from_be_bytes([c[0], c[1], c[2], c[3]])).collect();
        c15::check_built(&c15::Built::Ack(list), &mut Obs::default())?;
    }
    if data.len() >= 256 {
        c15::check_built(&c15::Built::Reg1(data[..256].to_vec()), &mut Obs::default())?;
        c15::check_built(&c15::Built::Reg2(data[data.len() - 256..].to_vec()), &mut Obs::default())?;
    }
    Ok(())
}

/// C09: bytes -> a history of link-state ops and datagrams on a real shell.
pub fn c09(data: &[u8]) -> CheckResult {
    let mut c = Cur { d: data, i: 0 };
    let (Some(h0), Some(h1)) = (c.u8(), c.u8()) else { return Ok(()) };
    let mut ops = Vec::new();
    while ops.len() < 64 {
        let Some(tag) = c.u8() else { break };
        let op = match tag % 20 {
            0..=8 => {
                let Some(l) = c.u8() else { break };
                let Some(len) = c.u8() else { break };
                let len = if len == 255 { c.u16().unwrap_or(0) as usize % 1501 } else { len as usize };
                let b = c.bytes(len);
                if b.is_empty() {
                    continue;
                }
                c09::Op::Datagram((l as u16) << 8, c09::Dg::Raw(b))
            }
            9 => c09::Op::Datagram((c.u8().unwrap_or(0) as u16) << 8, c09::Dg::SrtlaAck((c.u8().unwrap_or(0) as u16) << 8, c.u8().unwrap_or(0) % 6, vec![c.u32().unwrap_or(0)])),
            10 | 11 => {
                let l = c.u8().unwrap_or(0);
                let m = c.u8().unwrap_or(0) % 10;
                let t = c.u8().unwrap_or(0) as usize % 20;
                c09::Op::Datagram((l as u16) << 8, c09::Dg::Echo(m, c.bytes(t)))
            }
            12 => c09::Op::Datagram((c.u8().unwrap_or(0) as u16) << 8, c09::Dg::Nak((c.u8().unwrap_or(0) as u16) << 8, 1 + c.u8().unwrap_or(0) % 4)),
            13 => c09::Op::Datagram((c.u8().unwrap_or(0) as u16) << 8, c09::Dg::SrtAck(c.u32().unwrap_or(0), c.u8().unwrap_or(0) % 4)),
            14 => c09::Op::Client(1 + c.u8().unwrap_or(0) % 40),
            15 => c09::Op::Flush,
            16 => c09::Op::Housekeeping,
            17 => c09::Op::Advance(c.u16().unwrap_or(0) as u32),
            18 => c09::Op::Reg3((c.u8().unwrap_or(0) as u16) << 8),
            _ => c09::Op::Ngp((c.u8().unwrap_or(0) as u16) << 8),
        };
        ops.push(op);
    }
    if ops.is_empty() {
        return Ok(());
    }
    let case = c09::Case { n_links: 1 + h0 % 3, up_mask: h1, probing: h0 & 0x80 != 0, classic: h0 & 0x40 != 0, ops };
    c09::check(&case, &mut Obs::default())
}

/// C18: bytes -> lossy UTF-8 text, split into lines; histories + two entry points.
pub fn c18(data: &[u8]) -> CheckResult {
    let text = String::from_utf8_lossy(data);
    let lines: Vec<String> = text.split(['\n', '\r']).take(40).map(|s| s.to_string()).collect();
    let h = c18::History { lines };
    c18::check_history(&h, &mut Obs::default())?;
    c18::check_two_entry_points(&h, &mut Obs::default())
}

/// Dispatch by property id (used by `--replay` on a raw artifact).
pub fn run(id: &str, data: &[u8]) -> Option<CheckResult> {
    match id {
        "C15" => Some(c15(data)),
        "C09" => Some(c09(data)),
        "C18" => Some(c18(data)),
        _ => None,
    }
}

//! C05 — a NAK is charged once, and only to a link that carried the packet.
use crate::props::acct::{self, Which};
use crate::rt::Ctx;

pub fn run(ctx: &Ctx) -> &'static str {
    ctx.assume("ownership model: last unique routing per slot (seq mod 16384), valid for 5000 ms inclusive, purged when its link is removed by a reload; written independently of SequenceTracker");
    ctx.assume("probe copies are queued the way send_stall_probes does it (queue_data_packet without a tracker entry)");
    for (file, body) in ctx.replay_files() {
        if !ctx.replay_case::<acct::Case, _>("history", &file, &body, |c, o| acct::check(c, o, Which::C05)) {
            eprintln!("replay {}: unknown part", file.display());
        }
    }
    if ctx.replay.is_some() {
        return "exploration";
    }
    let max_ops = ctx.tier.pick(100, 250);
    ctx.explore(
        "history",
        "routing histories over 1..4 real links (re-routes to another link, untracked probe copies, slot collisions seq+-k*16384, clock steps around 5000 ms, link removal through apply_connection_changes, resets) followed by NAK lists with duplicates and ranges, half as real NAK packets through handle_uplink_packet, half number-by-number through the real attribute_nak; per-NAK deltas of (loss count, window, in-flight) on all links vs the ownership model; non-trivial = a NAKed seq was held by >=2 links, or its slot was displaced, or its age was within 1 ms of expiry, or its owner was removed/reset",
        ctx.tier.pick(100_000, 1_000_000),
        || acct::strategy(Which::C05, max_ops),
        |_| |c: &acct::Case, o: &mut crate::rt::Obs| acct::check(c, o, Which::C05),
    );
    "exploration"
}

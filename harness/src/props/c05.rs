//! C05 — a NAK is charged once, and only to a link that carried the packet.
use crate::props::acct::{self, Which};
use crate::props::decide;
use crate::rt::Ctx;

/// A stall-gated link whose socket cannot send: the duplicate probes the real send_stall_probes queues on it reach
/// their flush threshold (4 in the low-activity regime, i.e. after 400 routed data packets) and that flush fails.
/// Whatever was registered for that link never left it: a NAK for a probed number, after the carrier has been
/// forgotten (5 s), must not be charged to it.
#[derive(Debug, Clone, Hash, serde::Serialize, serde::Deserialize)]
pub struct ProbeFail {
    pub victim: u8,
    pub silent_ms: u16,
    pub packets: u16,
    pub nak_pick: u16,
    pub classic: bool,
}

pub fn check_probe_fail(c: &ProbeFail, obs: &mut crate::rt::Obs) -> crate::rt::CheckResult {
    use crate::engine::shell::Shell;
    use srtla_send::sender::verif_hooks as vh;
    let mut cfg = srtla_core::ConfigSnapshot::default();
    if c.classic {
        cfg.mode = srtla_core::SchedulingMode::Classic;
    }
    let mut sh = Shell::new(&[0, 1], cfg);
    sh.establish_all();
    let v = (c.victim % 2) as usize;
    let h = 1 - v;
    let pkt = |seq: u32| -> Vec<u8> {
        let mut p = vec![0u8; 40];
        p[0..4].copy_from_slice(&seq.to_be_bytes());
        p[4] = 0xc0;
        p[16..20].copy_from_slice(&seq.to_be_bytes());
        p
    };
    // low-activity batch regime (threshold 4): a housekeeping pass on idle links
    sh.housekeeping_core();
    // the victim is loaded, then falls silent beside a healthy link while decisions are taken: it gets gated
    let t = sh.now();
    for k in 0..40u32 {
        let p = pkt(10 + k);
        let Shell { rt, st } = &mut sh;
        rt.block_on(vh::forward_via_connection(v, &p, Some(10 + k), &mut st.conns, &st.conn_io, &mut st.last_selected, &mut st.seq_tracker, t));
    }
    sh.flush_tick();
    sh.advance(c.silent_ms as u64);
    sh.uplink_pkt(h, &[0x80, 0x06, 0, 0, 0, 0, 0, 0]);
    sh.client_pkt(&pkt(100));
    sh.flush_tick();
    let _ = sh.drain_wire();
    if !sh.st.conns[v].is_stall_gated() {
        obs.class("victim-not-gated");
        return Ok(());
    }
    sh.break_socket(v);
    // stream: the healthy link carries everything, every 100th data packet is duplicated onto the gated link
    let mut probed: Vec<u32> = Vec::new();
    for k in 0..c.packets as u32 {
        let seq = 1000 + k;
        let p = pkt(seq);
        sh.uplink_pkt(h, &[0x80, 0x06, 0, 0, 0, 0, 0, 0]);
        let before = sh.st.conns[v].batch_sender.queued_count();
        sh.client_pkt(&p);
        if sh.st.conns[v].batch_sender.queued_count() > before || sh.st.conns[v].packet_log.contains_key(&(seq as i32)) {
            probed.push(seq);
        }
        if k % 16 == 15 {
            // only the healthy link's timer flush (the victim's own flush is what the probes' threshold triggers)
            let Shell { rt, st } = &mut sh;
            let (a, b) = st.conns.split_at_mut(1);
            let hc = if h == 0 { &mut a[..1] } else { &mut b[..1] };
            rt.block_on(vh::flush_all_batches(hc, &st.conn_io));
            sh.advance(15);
        }
        let _ = sh.drain_wire();
        if !sh.st.conns[v].connected {
            break;
        }
    }
    if probed.is_empty() {
        obs.class("no-probe-made");
        return Ok(());
    }
    obs.class("probes-queued-on-a-link-that-cannot-send");
    let torn = !sh.st.conns[v].connected;
    if torn {
        obs.class("probe-flush-failed-link-torn-down");
        obs.nontrivial = true;
    }
    // the carrier is forgotten after 5 s; the healthy link keeps being heard
    sh.advance(5001);
    sh.uplink_pkt(h, &[0x80, 0x06, 0, 0, 0, 0, 0, 0]);
    let seq = probed[crate::rt::idx(c.nak_pick, probed.len())];
    let snap = |sh: &Shell| -> Vec<(i32, i32, i32)> { sh.st.conns.iter().map(|c| (c.total_nak_count(), c.window, c.in_flight_packets)).collect() };
    let b = snap(&sh);
    let queued_only = sh.st.conns[v].batch_sender.verif_queue_snapshot().iter().any(|(_, s)| *s == Some(seq));
    let mut nak = vec![0x80u8, 0x03, 0, 0];
    nak.extend_from_slice(&seq.to_be_bytes());
    sh.uplink_pkt(h, &nak);
    let a = snap(&sh);
    // nothing the victim holds has ever been on its wire: it cannot be charged
    let _ = queued_only;
    vensure!(a[v] == b[v], "nak-charged-link-that-never-sent", "NAK {seq}: the stall-gated link {v} cannot send (socket error), its probe flush {}; it was charged {:?} -> {:?}", if torn { "failed and tore it down" } else { "has not happened yet" }, b[v], a[v]);
    Ok(())
}

fn probe_fail_strategy() -> impl proptest::strategy::Strategy<Value = ProbeFail> {
    use proptest::prelude::*;
    (any::<u8>(), prop_oneof![Just(250u16), Just(300), 250u16..900], prop_oneof![Just(405u16), Just(450), 300u16..900], any::<u16>(), any::<bool>()).prop_map(|(victim, silent_ms, packets, nak_pick, classic)| ProbeFail { victim, silent_ms, packets, nak_pick, classic })
}

/// Process-wide state (statics, first-allocated ids) is fresh only once per process, and a generated search runs
/// thousands of cases in one: this part runs every case in a process of its own (`vcheck fresh-case`), so that the
/// links it creates are the first this process ever created.
fn first_of_process(ctx: &Ctx, n: usize) {
    use std::io::Write;
    use proptest::strategy::{Strategy, ValueTree};
    use proptest::test_runner::{Config, RngAlgorithm, RngSeed, TestRunner};
    if ctx.failed() {
        return;
    }
    let Ok(exe) = std::env::current_exe() else { return };
    let mut runner = TestRunner::new(Config { rng_algorithm: RngAlgorithm::ChaCha, rng_seed: RngSeed::Fixed(crate::rt::mix_seed(ctx.seed, &ctx.id, "first-of-process", 0)), failure_persistence: None, ..Config::default() });
    let strat = acct::first_links_strategy();
    let cases: Vec<acct::Case> = (0..n).filter_map(|_| strat.new_tree(&mut runner).ok().map(|t| t.current())).collect();
    let mut stats = crate::rt::PartStats::new(
        "first-of-process",
        "short accounting histories (unique copy on one link, probe copy on another, the number NAKed twice, generated noise around), each run as the first thing a new process does: the links are the first the process ever created; same oracle as the history part; non-trivial = a repeated NAK met two holders",
    );
    let results: Vec<(usize, String)> = std::thread::scope(|sc| {
        let hs: Vec<_> = cases
            .chunks(cases.len().div_ceil(ctx.workers.max(1)).max(1))
            .enumerate()
            .map(|(ci, chunk)| {
                let exe = &exe;
                let base = ci * cases.len().div_ceil(ctx.workers.max(1)).max(1);
                sc.spawn(move || {
                    let mut out = Vec::new();
                    for (k, case) in chunk.iter().enumerate() {
                        let child = std::process::Command::new(exe).arg("fresh-case").arg("C05").stdin(std::process::Stdio::piped()).stdout(std::process::Stdio::piped()).stderr(std::process::Stdio::null()).spawn();
                        let Ok(mut child) = child else { continue };
                        if let Some(mut si) = child.stdin.take() {
                            let _ = si.write_all(serde_json::to_string(case).unwrap_or_default().as_bytes());
                        }
                        let Ok(o) = child.wait_with_output() else { continue };
                        let text = String::from_utf8_lossy(&o.stdout).to_string();
                        if let Some(l) = text.lines().find(|l| l.starts_with("FRESH ")) {
                            out.push((base + k, l.to_string()));
                        }
                    }
                    out
                })
            })
            .collect();
        hs.into_iter().flat_map(|h| h.join().unwrap_or_default()).collect()
    });
    let mut first_viol: Option<(usize, String, String)> = None;
    for (k, line) in &results {
        let mut obs = crate::rt::Obs::default();
        if let Some(rest) = line.strip_prefix("FRESH ok ") {
            if let Ok(cl) = serde_json::from_str::<Vec<String>>(rest) {
                obs.nontrivial = cl.iter().any(|c| c.contains("repeat") || c.contains("probe-copy"));
                obs.classes = cl;
            }
        } else if let Some(rest) = line.strip_prefix("FRESH viol ") {
            let (sig, msg) = rest.split_once('|').unwrap_or((rest, ""));
            if first_viol.is_none() {
                first_viol = Some((*k, sig.to_string(), msg.to_string()));
            }
            obs.nontrivial = true;
        }
        if obs.nontrivial {
            obs.sample = Some(serde_json::json!({"n_ops": cases[*k].ops.len(), "links": cases[*k].n_links}));
        }
        let h = crate::rt::hash_of(&cases[*k]);
        stats.record(h, obs, || serde_json::to_value(&cases[*k]).unwrap_or(serde_json::Value::Null));
    }
    ctx.add_part(stats);
    if let Some((k, sig, msg)) = first_viol {
        let v = crate::rt::Violation { sig, msg: format!("{msg} (in a process whose first links these are; replay with --replay, which also starts a new process)") };
        if ctx.is_known(&v.sig).is_some() {
            ctx.print_known(&v.sig);
        } else {
            ctx.report_violation("first-of-process", &v, serde_json::to_value(&cases[k]).unwrap_or(serde_json::Value::Null));
        }
    }
}

pub fn run(ctx: &Ctx) -> &'static str {
    ctx.assume("ownership model: last unique routing per slot (seq mod 16384), valid for 5000 ms inclusive, purged when its link is removed by a reload; written independently of SequenceTracker");
    ctx.assume("[history] probe copies are queued the way send_stall_probes does it (queue_data_packet without a tracker entry); [real-routing] they are made by the real send_stall_probes inside handle_srt_packet");
    for (file, body) in ctx.replay_files() {
        if !ctx.replay_case::<acct::Case, _>("history", &file, &body, |c, o| acct::check(c, o, Which::C05))
            && !ctx.replay_case::<decide::Case, _>("real-routing", &file, &body, |c, o| decide::check(c, o, decide::Which::C05, ctx))
            && !ctx.replay_case::<ProbeFail, _>("probe-flush-failure", &file, &body, check_probe_fail)
            && !ctx.replay_case::<acct::Case, _>("first-of-process", &file, &body, |c, o| acct::check(c, o, Which::C05))
        {
            eprintln!("replay {}: unknown part", file.display());
        }
    }
    if ctx.replay.is_some() {
        return "exploration";
    }
    let max_ops = ctx.tier.pick(100, 250);
    ctx.explore(
        "history",
        "routing histories over 1..4 real links (re-routes to another link, untracked probe copies, slot collisions seq+-k*16384, clock steps around 5000 ms, link removal through apply_connection_changes, resets) followed by NAK lists with duplicates and ranges, half as real NAK packets through handle_uplink_packet, half number-by-number through the real attribute_nak; per-NAK deltas of (loss count, window, in-flight) on all links vs the ownership model; non-trivial = a NAKed seq was held by >=2 links, or its slot was displaced, or its age was within 1 ms of expiry, or its owner was removed/reset",
        ctx.tier.pick(100_000, 1_000_000),
        || acct::strategy(Which::C05, max_ops),
        |_| |c: &acct::Case, o: &mut crate::rt::Obs| acct::check(c, o, Which::C05),
    );
    let mo = ctx.tier.pick(50, 100);
    ctx.explore(
        "real-routing",
        "the C04 decision engine (real handle_srt_packet with the real send_stall_probes and tracker insert, link states produced by real packets, housekeeping and clock steps): whenever a datagram was duplicated onto a stall-gated link it is flushed and NAKed at once (arrival on the gated link, the carrier or a third link), then NAKed again; the first NAK may charge only the link that carried the unique copy, the repeat nothing; non-trivial = such a NAK happened",
        ctx.tier.pick(40_000, 400_000),
        || decide::strategy(mo),
        |_| |c: &decide::Case, o: &mut crate::rt::Obs| decide::check(c, o, decide::Which::C05, ctx),
    );
    ctx.explore(
        "probe-flush-failure",
        "a stall-gated link whose socket cannot send, in the low-activity batch regime: 300..900 data packets through the real handle_srt_packet (every 100th duplicated onto the gated link by the real send_stall_probes, the fourth probe triggers a flush that fails), 5001 ms later a NAK for one of the probed numbers: the link that never sent anything is not charged; non-trivial = the probe flush failed and tore the link down",
        ctx.tier.pick(160, 2_000),
        probe_fail_strategy,
        |_| check_probe_fail,
    );
    first_of_process(ctx, ctx.tier.pick(48, 400));
    "exploration"
}

//! C05 — a NAK is charged once, and only to a link that carried the packet.
use crate::props::acct::{self, Which};
use crate::props::decide;
use crate::rt::Ctx;

pub fn run(ctx: &Ctx) -> &'static str {
    ctx.assume("ownership model: last unique routing per slot (seq mod 16384), valid for 5000 ms inclusive, purged when its link is removed by a reload; written independently of SequenceTracker");
    ctx.assume("[history] probe copies are queued the way send_stall_probes does it (queue_data_packet without a tracker entry); [real-routing] they are made by the real send_stall_probes inside handle_srt_packet");
    for (file, body) in ctx.replay_files() {
        if !ctx.replay_case::<acct::Case, _>("history", &file, &body, |c, o| acct::check(c, o, Which::C05))
            && !ctx.replay_case::<decide::Case, _>("real-routing", &file, &body, |c, o| decide::check(c, o, decide::Which::C05, ctx))
        {
            eprintln!("replay {}: unknown part", file.display());
        }
    }
    if ctx.replay.is_some() {
        return "exploration";
    }
    let max_ops = ctx.tier.pick(100, 250);
    ctx.explore(
        "history",
        "routing histories over 1..4 real links (re-routes to another link, untracked probe copies, slot collisions seq+-k*16384, clock steps around 5000 ms, link removal through apply_connection_changes, resets) followed by NAK lists with duplicates and ranges, half as real NAK packets through handle_uplink_packet, half number-by-number through the real attribute_nak; per-NAK deltas of (loss count, window, in-flight) on all links vs the ownership model; non-trivial = a NAKed seq was held by >=2 links, or its slot was displaced, or its age was within 1 ms of expiry, or its owner was removed/reset",
        ctx.tier.pick(100_000, 1_000_000),
        || acct::strategy(Which::C05, max_ops),
        |_| |c: &acct::Case, o: &mut crate::rt::Obs| acct::check(c, o, Which::C05),
    );
    let mo = ctx.tier.pick(50, 100);
    ctx.explore(
        "real-routing",
        "the C04 decision engine (real handle_srt_packet with the real send_stall_probes and tracker insert, link states produced by real packets, housekeeping and clock steps): whenever a datagram was duplicated onto a stall-gated link it is flushed and NAKed at once (arrival on the gated link, the carrier or a third link), then NAKed again; the first NAK may charge only the link that carried the unique copy, the repeat nothing; non-trivial = such a NAK happened",
        ctx.tier.pick(40_000, 400_000),
        || decide::strategy(mo),
        |_| |c: &decide::Case, o: &mut crate::rt::Obs| decide::check(c, o, decide::Which::C05, ctx),
    );
    "exploration"
}

//! C16 — per-link CC soft cap and loss latch stay bounded and honest.
//! Snapshot-to-snapshot monitor over generated tick histories, on the real
//! `LinkCcController::tick_all` (with real connections) and directly on
//! `LinkCongestionState`.

use std::collections::BTreeMap;

use proptest::collection::vec;
use proptest::prelude::*;
use serde::{Deserialize, Serialize};
use serde_json::json;
use srtla_core::connection::SrtlaConnection;
use srtla_core::selection::link_cc::{CcState, LinkCcController, LinkCcSnapshot, LinkCongestionState};

use crate::engine::core::{T0, apply_reg3, new_link};
use crate::rt::{CheckResult, Ctx, Obs, idx};

const FLOOR: u64 = 100_000;
const CEIL: u64 = 200_000_000;

/// Per-link monitor state (independent of the code's internals).
#[derive(Default, Clone)]
struct Mon {
    prev: Option<(CcState, u64, bool)>, // state, target, loss_degraded
    rtt_fed: bool,
    seeded: bool,
    high_since: Option<u64>,
    states: Vec<CcState>,
    latch_toggled: bool,
    reached_floor_after_seed: bool,
    /// when a lost packet (a NAK) was last fed to this link; loss average of the previous snapshot
    last_loss_fed: Option<u64>,
    prev_loss: Option<f64>,
    /// controller tier: what the harness fed per tick - (time, lost / max(1, bytes / 1316) capped at 1, counters
    /// were reset in this tick)
    fed: Vec<(u64, f64, bool)>,
}

/// Check one tick's snapshot against the previous one. `observed` is the
/// measured bitrate handed to that tick.
fn monitor(m: &mut Mon, s: &LinkCcSnapshot, observed: u64, now: u64, who: &str) -> CheckResult {
    vensure!((FLOOR..=CEIL).contains(&s.target_bps), "target-range", "{who}: target {} outside [100k, 200M]", s.target_bps);
    vensure!(s.loss_ewma.is_finite() && (0.0..=1.0).contains(&s.loss_ewma), "loss-ewma-range", "{who}: loss average {} not in [0,1]", s.loss_ewma);
    // honest: the loss average is an average over a 1 s window of fed (sent, lost) samples; while nothing lost was
    // fed for 2.5 s (counter restarts are not losses) it can only decay
    if let Some(pl) = m.prev_loss
        && m.last_loss_fed.is_none_or(|t| now.saturating_sub(t) > 2_500)
    {
        vensure!(s.loss_ewma <= pl + 1e-12, "loss-without-naks", "{who}: loss average rose {} -> {} although no lost packet was fed to this link for {:?} ms", pl, s.loss_ewma, m.last_loss_fed.map(|t| now - t));
    }
    m.prev_loss = Some(s.loss_ewma);
    if !m.states.contains(&s.state) {
        m.states.push(s.state);
    }
    if !m.rtt_fed {
        vensure!(s.state == CcState::Bootstrap && s.target_bps == FLOOR, "bootstrap-floor", "{who}: state {:?} target {} before any RTT sample", s.state, s.target_bps);
    } else if let Some((pstate, ptarget, _)) = m.prev {
        let t = s.target_bps;
        if !m.seeded {
            // initial seeding tick
            let seed_cap = (observed.min(4_000_000).max(1_000_000) as f64 * 1.06) as u64 + 1;
            vensure!(t <= seed_cap, "seed-too-high", "{who}: first post-bootstrap target {} > 1.06*max(min(observed {},4M),1M)", t, observed);
            m.seeded = true;
        } else if t < ptarget {
            let ok_backoff = s.state == CcState::BackingOff
                && t + 1 >= ((ptarget as f64) * 0.85) as u64
                && t + 1 >= observed.min(ptarget);
            let ok_drain = s.state == CcState::Drain && pstate != CcState::Drain && t + 1 >= ((ptarget as f64) * 0.75) as u64;
            let at_floor = t == FLOOR && (s.state == CcState::BackingOff || (s.state == CcState::Drain && pstate != CcState::Drain));
            vensure!(
                ok_backoff || ok_drain || at_floor,
                "target-lowered",
                "{who}: target lowered {} -> {} in state {:?} (prev {:?}, observed {})",
                ptarget,
                t,
                s.state,
                pstate,
                observed
            );
        } else if t > ptarget {
            vensure!(s.state != CcState::BackingOff, if ptarget == FLOOR { "reseed-at-floor" } else { "backoff-raised" }, "{who}: back-off raised the target {} -> {}", ptarget, t);
            let lim = (ptarget as f64 * 1.06) as u64 + 1;
            vensure!(t <= lim, if ptarget == FLOOR { "reseed-at-floor" } else { "growth-gt-6pct" }, "{who}: target grew {} -> {} (> 6%) in state {:?}", ptarget, t, s.state);
            vensure!(t <= 2 * observed + 1, "growth-beyond-2x-measured", "{who}: target grew to {} > 2 x observed {}", t, observed);
        }
        if t == FLOOR && m.seeded {
            m.reached_floor_after_seed = true;
        }
    } else {
        // first snapshot of a link that already has RTT: this is the seeding tick
        let seed_cap = (observed.min(4_000_000).max(1_000_000) as f64 * 1.06) as u64 + 1;
        vensure!(s.target_bps <= seed_cap, "seed-too-high", "{who}: first target {} too high for observed {}", s.target_bps, observed);
        m.seeded = true;
    }
    // loss latch
    let prev_deg = m.prev.map(|p| p.2).unwrap_or(false);
    if s.loss_ewma > 0.55 {
        if m.high_since.is_none() {
            m.high_since = Some(now);
        }
    } else {
        m.high_since = None;
    }
    if !prev_deg && s.loss_degraded {
        let span = m.high_since.map(|h| now - h);
        vensure!(span.is_some_and(|d| d >= 4000), "loss-latch-early", "{who}: loss-degraded latched after {:?} ms above 0.55 (average {})", span, s.loss_ewma);
        m.latch_toggled = true;
    }
    if prev_deg && !s.loss_degraded {
        vensure!(s.loss_ewma < 0.25, "loss-latch-cleared-early", "{who}: loss-degraded cleared at average {}", s.loss_ewma);
        m.latch_toggled = true;
    }
    m.prev = Some((s.state, s.target_bps, s.loss_degraded));
    Ok(())
}

// ---------------------------------------------------------------- direct tier

#[derive(Debug, Clone, Hash, Serialize, Deserialize)]
pub struct StTick {
    pub dt: u8,      // index into DTS
    pub rtt: u8,     // 0 = none, else palette index + 1
    pub sent: u16,
    pub lost: u8,    // interpreted through LOSS table
    pub obs: u8,     // index into OBS modes
}

#[derive(Debug, Clone, Hash, Serialize, Deserialize)]
pub struct StCase {
    pub palette: Vec<u16>,
    pub ticks: Vec<StTick>,
}

const DTS: &[u64] = &[1000, 1000, 1000, 2000, 2000, 999, 1001, 0, 1, 250, 500, 3000, 4000, 5000, 10_000, 31_000];

fn observed_for(mode: u8, target: u64, steady: u64) -> u64 {
    match mode % 8 {
        0 => 0,
        1 => steady,
        2 => (target as f64 * 0.35) as u64,
        3 => target / 2,
        4 => target,
        5 => steady.saturating_mul(100),
        6 => (target as f64 * 0.29) as u64,
        _ => target.saturating_mul(3),
    }
}

fn st_strategy(max_ticks: usize) -> impl Strategy<Value = StCase> {
    let rttv = prop_oneof![Just(10u16), Just(16), Just(19), Just(20), Just(25), Just(40), Just(100), 1u16..3000];
    (
        vec(rttv, 1..4),
        vec(
            (0u8..DTS.len() as u8, 0u8..5, prop_oneof![Just(0u16), Just(100), 1u16..2000], prop_oneof![4 => Just(0u8), 2 => 1u8..4, 2 => 4u8..9], 0u8..8)
                .prop_map(|(dt, rtt, sent, lost, obs)| StTick { dt, rtt, sent, lost, obs }),
            1..max_ticks,
        ),
    )
        .prop_map(|(palette, ticks)| StCase { palette, ticks })
}

fn lost_of(code: u8, sent: u16) -> u32 {
    match code {
        0 => 0,
        1 => 1,
        2 => (sent as u32 / 100).max(1),
        3 => (sent as u32 / 20).max(1),
        4 => sent as u32 / 2,
        5 => (sent as u32 * 6) / 10,
        6 => (sent as u32 * 9) / 10,
        7 => sent as u32,
        _ => sent as u32 * 2 + 1,
    }
}

pub fn check_state(case: &StCase, obs: &mut Obs) -> CheckResult {
    let mut st = LinkCongestionState::default();
    let mut m = Mon::default();
    let mut now = T0;
    let steady = 2_000_000u64;
    for (i, t) in case.ticks.iter().enumerate() {
        now += DTS[t.dt as usize % DTS.len()];
        if t.rtt > 0 {
            let r = case.palette[(t.rtt as usize - 1) % case.palette.len()];
            st.record_rtt(r as f64, now);
            m.rtt_fed = true;
        }
        if t.sent > 0 || t.lost > 0 {
            let lost = lost_of(t.lost, t.sent);
            st.record_loss(t.sent as u32, lost, now);
            if lost > 0 {
                m.last_loss_fed = Some(now);
            }
        }
        let observed = observed_for(t.obs, st.target_bps, steady);
        st.tick(observed, now);
        let s = st.snapshot();
        monitor(&mut m, &s, observed, now, &format!("tick {i}"))?;
    }
    finish(obs, &[m]);
    if obs.nontrivial {
        obs.sample = Some(json!({"palette": case.palette, "n_ticks": case.ticks.len(), "first": format!("{:?}", &case.ticks[..case.ticks.len().min(6)])}));
    }
    Ok(())
}

// ------------------------------------------------------------ steady regimes

/// Long steady regimes: a block repeats one (RTT, loss permille, measured rate) setting for up to 90 one-second
/// ticks - loss averages parked exactly on 0.25 / 0.55, measured rates around and far above the 200 Mbit/s ceiling.
#[derive(Debug, Clone, Hash, Serialize, Deserialize)]
pub struct RgCase {
    pub blocks: Vec<(u8, u16, u16, u8)>, // repeats, rtt ms, lost per 1000 sent, measured-rate selector
}

const RATES: &[u64] = &[0, 90_000, 2_000_000, 50_000_000, 199_000_000, 200_000_000, 201_000_000, 300_000_000, 1_000_000_000, 4_000_000_000];

fn rg_strategy() -> impl Strategy<Value = RgCase> {
    let lost = prop_oneof![4 => Just(0u16), 1 => Just(249u16), 2 => Just(250), 1 => Just(251), 1 => Just(549), 3 => Just(550), 1 => Just(551), 1 => Just(600), 1 => Just(1000), 2 => 0u16..1000];
    vec((prop_oneof![1u8..8, 4u8..12, 60u8..90], prop_oneof![Just(20u16), Just(20), Just(40), 5u16..400], lost, 0u8..RATES.len() as u8), 1..5).prop_map(|blocks| RgCase { blocks })
}

pub fn check_regimes(case: &RgCase, obs: &mut Obs) -> CheckResult {
    let mut st = LinkCongestionState::default();
    let mut m = Mon::default();
    let mut now = T0;
    let mut i = 0usize;
    let mut top = 0u64;
    for (rep, rtt, lost_pm, rate) in &case.blocks {
        let observed = RATES[*rate as usize % RATES.len()];
        for _ in 0..*rep {
            now += 1000;
            st.record_rtt(*rtt as f64, now);
            m.rtt_fed = true;
            st.record_loss(1000, *lost_pm as u32, now);
            if *lost_pm > 0 {
                m.last_loss_fed = Some(now);
            }
            st.tick(observed, now);
            let s = st.snapshot();
            top = top.max(s.target_bps);
            if s.loss_ewma == 0.55 || s.loss_ewma == 0.25 {
                obs.class("loss-average-exactly-on-a-threshold");
            }
            monitor(&mut m, &s, observed, now, &format!("tick {i}"))?;
            i += 1;
        }
    }
    if top >= 150_000_000 {
        obs.class("target-above-150M");
    }
    if top == CEIL {
        obs.class("target-at-the-200M-ceiling");
    }
    finish(obs, &[m]);
    obs.nontrivial |= obs.classes.iter().any(|c| c == "loss-average-exactly-on-a-threshold" || c == "target-above-150M");
    if obs.nontrivial {
        obs.sample = Some(json!({"blocks": format!("{:?}", case.blocks), "top_target": top}));
    }
    Ok(())
}

fn finish(obs: &mut Obs, mons: &[Mon]) {
    for m in mons {
        let nst = m.states.len();
        if nst >= 3 {
            obs.class("3-cc-states");
        }
        if m.latch_toggled {
            obs.class("loss-latch-toggled");
        }
        if m.reached_floor_after_seed {
            obs.class("walked-to-floor");
        }
        if m.states.contains(&CcState::BackingOff) {
            obs.class("backing-off");
        }
        if m.states.contains(&CcState::Drain) {
            obs.class("drain");
        }
    }
    obs.nontrivial = obs.classes.iter().any(|c| c == "3-cc-states" || c == "loss-latch-toggled");
}

// ------------------------------------------------------------ controller tier

#[derive(Debug, Clone, Hash, Serialize, Deserialize)]
pub struct LinkIn {
    pub present: bool,
    pub rtt: Vec<u8>, // palette selectors, each sample fed through the real RTT tracker
    pub bytes: u32,
    pub naks: u8,
    pub obs: u8,
    pub reconnect: bool,
    /// the link is torn down at this tick (timeout / REG_ERR: mark_for_recovery) and stays down until a reconnect
    #[serde(default)]
    pub down: bool,
}

#[derive(Debug, Clone, Hash, Serialize, Deserialize)]
pub struct CtlCase {
    pub palette: Vec<u16>,
    pub n_links: u8,
    pub ticks: Vec<(u8, Vec<LinkIn>)>,
}

fn ctl_strategy(max_ticks: usize) -> impl Strategy<Value = CtlCase> {
    let rttv = prop_oneof![Just(10u16), Just(20), Just(25), Just(45), Just(100), Just(300), 1u16..3000];
    (1u8..=4, vec(rttv, 1..4)).prop_flat_map(move |(n, palette)| {
        let link = (
            prop::bool::weighted(0.93),
            vec(0u8..4, 0..4),
            prop_oneof![Just(0u32), Just(1316 * 100), 0u32..2_000_000],
            prop_oneof![5 => Just(0u8), 2 => 1u8..4, 1 => 4u8..60],
            0u8..8,
            prop::bool::weighted(0.03),
            prop::bool::weighted(0.02),
        )
            .prop_map(|(present, rtt, bytes, naks, obs, reconnect, down)| LinkIn { present, rtt, bytes, naks, obs, reconnect, down });
        vec((0u8..DTS.len() as u8, vec(link, n as usize)), 1..max_ticks).prop_map(move |ticks| CtlCase { palette: palette.clone(), n_links: n, ticks })
    })
}

pub fn check_ctl(case: &CtlCase, obs: &mut Obs) -> CheckResult {
    let n = case.n_links as usize;
    let mut now = T0;
    let mut links: Vec<SrtlaConnection> = (0..n)
        .map(|i| {
            let mut c = new_link(i, now);
            apply_reg3(&mut c, now);
            c
        })
        .collect();
    let mut ctl = LinkCcController::new();
    let mut mons: BTreeMap<u64, Mon> = BTreeMap::new();
    let mut finished: Vec<Mon> = Vec::new();
    let mut seq = 1i32;
    for (ti, (dt, ins)) in case.ticks.iter().enumerate() {
        now += DTS[*dt as usize % DTS.len()];
        let mut present: Vec<usize> = Vec::new();
        let mut observed: BTreeMap<u64, u64> = BTreeMap::new();
        let mut fed_now: BTreeMap<u64, (f64, bool)> = BTreeMap::new();
        for (i, li) in ins.iter().enumerate() {
            let c = &mut links[i];
            fed_now.insert(
                c.conn_id,
                (if li.naks == 0 { 0.0 } else { (li.naks as f64 / ((li.bytes as u64 / 1316).max(1)) as f64).min(1.0) }, li.reconnect || li.down || !c.connected),
            );
            if li.reconnect {
                c.reset_for_reconnect(now);
                apply_reg3(c, now);
                obs.class("counter-reset");
            }
            if li.down && c.connected {
                c.mark_for_recovery();
                obs.class("link-torn-down");
            }
            if !c.connected {
                obs.class("tick-on-disconnected-link");
            }
            for sel in &li.rtt {
                let r = case.palette[idx((*sel as u16) << 14, case.palette.len())];
                c.rtt.update_estimate(r as u64, now);
            }
            c.bitrate.update_on_send(li.bytes as u64);
            for _ in 0..li.naks {
                c.register_packet(seq, now);
                c.handle_nak(seq, now);
                seq += 1;
            }
            if li.naks > 0 {
                mons.entry(c.conn_id).or_default().last_loss_fed = Some(now);
            }
            let cur_target = mons.get(&c.conn_id).and_then(|m| m.prev).map(|p| p.1).unwrap_or(FLOOR);
            let ob = observed_for(li.obs, cur_target, 2_000_000);
            c.bitrate.current_bitrate_bps = ob as f64;
            if li.present {
                present.push(i);
                observed.insert(c.conn_id, ob);
            }
        }
        // tick_all over the present links only (a link that vanishes is garbage-collected)
        let mut moved: Vec<SrtlaConnection> = Vec::new();
        let mut absent: Vec<SrtlaConnection> = Vec::new();
        for (i, c) in links.drain(..).enumerate() {
            if present.contains(&i) {
                moved.push(c);
            } else {
                absent.push(c);
            }
        }
        let snaps = ctl.tick_all(&moved, now);
        vensure!(snaps.len() == moved.len(), "snapshot-count", "tick {ti}: {} snapshots for {} links", snaps.len(), moved.len());
        // links absent this tick lose their monitor (they are new when they come back)
        let present_ids: Vec<u64> = moved.iter().map(|c| c.conn_id).collect();
        let gone: Vec<u64> = mons.keys().filter(|k| !present_ids.contains(k)).copied().collect();
        for g in gone {
            finished.push(mons.remove(&g).unwrap());
            obs.class("link-vanished");
        }
        for c in &moved {
            let s = snaps.get(&c.conn_id).unwrap();
            let m = mons.entry(c.conn_id).or_default();
            if c.get_smooth_rtt_ms() > 0.0 {
                m.rtt_fed = true;
            }
            // honest loss average: it is an average of 1 s windows of what was fed, so it can never exceed both its
            // previous value and the worst per-tick loss fraction fed inside the window. Not judged while a tick in
            // (or just before) the window reset the link's counters: the controller re-anchors there.
            if let Some((ratio, reset)) = fed_now.get(&c.conn_id) {
                m.fed.push((now, *ratio, *reset));
            }
            let horizon = now.saturating_sub(1_000);
            let first_in = m.fed.iter().position(|f| f.0 >= horizon).unwrap_or(m.fed.len());
            let from = first_in.saturating_sub(2);
            let recent = &m.fed[from..];
            if let Some(pl) = m.prev_loss
                && !recent.iter().any(|f| f.2)
                && m.fed.len() >= 3
            {
                let worst = recent.iter().map(|f| f.1).fold(0.0f64, f64::max);
                vensure!(
                    s.loss_ewma <= pl.max(worst) + 1e-9,
                    "loss-average-above-what-was-fed",
                    "tick {ti} link {}: loss average {} exceeds both its previous value {} and the worst loss fraction fed in the window ({}; per tick: {:?})",
                    c.conn_id & 0xf,
                    s.loss_ewma,
                    pl,
                    worst,
                    recent.iter().map(|f| f.1).collect::<Vec<_>>()
                );
                if worst > 0.0 && s.loss_ewma > pl {
                    obs.class("loss-average-rose-within-the-fed-bound");
                }
            }
            if m.fed.len() > 64 {
                m.fed.drain(..32);
            }
            monitor(m, s, observed[&c.conn_id], now, &format!("tick {ti} link {}", c.conn_id & 0xf))?;
        }
        links.extend(moved);
        links.extend(absent);
        links.sort_by_key(|c| c.conn_id);
    }
    finished.extend(mons.into_values());
    finish(obs, &finished);
    if obs.nontrivial {
        obs.sample = Some(json!({"palette": case.palette, "links": case.n_links, "n_ticks": case.ticks.len()}));
    }
    Ok(())
}

pub fn run(ctx: &Ctx) -> &'static str {
    ctx.assume("observed bitrate per tick is chosen relative to the current target (0, steady, 0.29x, 0.35x, 0.5x, 1x, 3x target, 100x burst); it is written to bitrate.current_bitrate_bps, the field the controller reads");
    ctx.assume("+-1 bit/s slack for the code's float-to-integer truncation; the loss average is the one the snapshot exports");
    ctx.assume("a link absent from a tick is a new link when it re-appears (the controller garbage-collects it)");
    for (file, body) in ctx.replay_files() {
        let done = ctx.replay_case::<StCase, _>("state", &file, &body, check_state)
            || ctx.replay_case::<CtlCase, _>("controller", &file, &body, check_ctl)
            || ctx.replay_case::<RgCase, _>("steady-regimes", &file, &body, check_regimes);
        if !done {
            eprintln!("replay {}: unknown part", file.display());
        }
    }
    if ctx.replay.is_some() {
        return "exploration";
    }
    let mt = ctx.tier.pick(200, 600);
    ctx.explore(
        "state",
        "tick histories directly on LinkCongestionState (record_rtt / record_loss / tick) with an RTT palette, irregular spacing incl. 0 ms and 5 s, loss from 0 to >100%, observed bitrate relative to the target; snapshot-to-snapshot monitor; non-trivial = >=3 CC states visited or the loss latch toggled",
        ctx.tier.pick(60_000, 800_000),
        || st_strategy(mt),
        |_| check_state,
    );
    ctx.explore(
        "controller",
        "tick histories on LinkCcController::tick_all over 1..4 real connections (RTT via the real tracker, byte and NAK counters via real calls, counter resets through reset_for_reconnect, links vanishing and re-appearing); same monitor; non-trivial as above",
        ctx.tier.pick(30_000, 400_000),
        || ctl_strategy(mt),
        |_| check_ctl,
    );
    ctx.explore(
        "steady-regimes",
        "1..4 blocks of up to 90 one-second ticks with one (RTT, loss per 1000 sent, measured rate) setting each: loss 249/250/251 and 549/550/551 permille held for seconds (averages parked exactly on the clear / latch thresholds), measured rates 0 .. 4 Gbit/s incl. 199/200/201/300 Mbit/s held long enough for the target to climb to the ceiling; same monitor; non-trivial = the average sat exactly on a threshold or the target passed 150 Mbit/s",
        ctx.tier.pick(20_000, 300_000),
        rg_strategy,
        |_| check_regimes,
    );
    "exploration"
}

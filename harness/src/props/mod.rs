use crate::rt::Ctx;

pub mod acct;
pub mod c02;
pub mod c05;
pub mod c06;
pub mod c06_shell;
pub mod c15;

/// Runs the check for `ctx.id`; returns the evidence level, or None for an unknown id.
pub fn run(ctx: &Ctx) -> Option<&'static str> {
    match ctx.id.as_str() {
        "C02" => Some(c02::run(ctx)),
        "C05" => Some(c05::run(ctx)),
        "C06" => Some(c06::run(ctx)),
        "C15" => Some(c15::run(ctx)),
        _ => None,
    }
}

use crate::rt::Ctx;

pub mod acct;
pub mod cli;
pub mod c01;
pub mod c02;
pub mod c03;
pub mod c03_shell;
pub mod c04;
pub mod c05;
pub mod c06;
pub mod c06_shell;
pub mod c07;
pub mod c08;
pub mod c09;
pub mod c10;
pub mod c11;
pub mod c12;
pub mod c13;
pub mod c14;
pub mod c15;
pub mod c18;
pub mod c19;
pub mod c20;
pub mod decide;
pub mod e2e;
pub mod faultsim;
pub mod c16;
pub mod c17;

/// Runs the check for `ctx.id`; returns the evidence level, or None for an unknown id.
pub fn run(ctx: &Ctx) -> Option<&'static str> {
    match ctx.id.as_str() {
        "C01" => Some(c01::run(ctx)),
        "C02" => Some(c02::run(ctx)),
        "C03" => Some(c03::run(ctx)),
        "C04" => Some(c04::run(ctx)),
        "C07" => Some(c07::run(ctx)),
        "C08" => Some(c08::run(ctx)),
        "C09" => Some(c09::run(ctx)),
        "C10" => Some(c10::run(ctx)),
        "C11" => Some(c11::run(ctx)),
        "C12" => Some(c12::run(ctx)),
        "C05" => Some(c05::run(ctx)),
        "C06" => Some(c06::run(ctx)),
        "C20" => Some(c20::run(ctx)),
        "C19" => Some(c19::run(ctx)),
        "C18" => Some(c18::run(ctx)),
        "C17" => Some(c17::run(ctx)),
        "C16" => Some(c16::run(ctx)),
        "C13" => Some(c13::run(ctx)),
        "C14" => Some(c14::run(ctx)),
        "C15" => Some(c15::run(ctx)),
        _ => None,
    }
}

use crate::rt::Ctx;

pub mod c15;

/// Runs the check for `ctx.id`; returns the evidence level, or None for an unknown id.
pub fn run(ctx: &Ctx) -> Option<&'static str> {
    match ctx.id.as_str() {
        "C15" => Some(c15::run(ctx)),
        _ => None,
    }
}

//! C20 — telemetry subscriptions never block the data plane and stay ordered.
//! Generated interleavings of subscribe / unsubscribe / publish / receive /
//! close by several connections; hub futures are polled by hand (no runtime),
//! so a publish that would wait on a subscriber is seen as a pending future.
//! A real-thread tier adds true lock contention (thorough).

use std::future::Future;
use std::pin::pin;
use std::task::{Context, Poll, Waker};

use proptest::collection::vec;
use proptest::prelude::*;
use serde::{Deserialize, Serialize};
use serde_json::{Value, json};
use srtla_send::subscriptions::SubscriptionHub;
use tokio::sync::mpsc;

use crate::props::c18::block_on_simple;
use crate::rt::{CheckResult, Ctx, Obs, Tier, idx};

const CAPS: &[usize] = &[1, 2, 8, 128];
/// Topic pairs. Set 0 is what the control socket admits; the others go through the hub's own API (which takes any
/// topic name) and are chosen so that one name is a prefix of the other, or empty.
const TOPIC_SETS: &[[&str; 2]] = &[["stats", "priority.window"], ["stats", "stats.links"], ["priority.window", "priority"], ["", "stats"]];

#[derive(Debug, Clone, Hash, Serialize, Deserialize)]
pub enum Op {
    Subscribe(u16, bool),
    Unsubscribe(u16),
    Publish(bool, u8, u8),
    RecvOne(u16),
    RecvAll(u16),
    Close(u16),
    /// `Receiver::close()` without draining; the receiver object stays alive (a full channel stays full)
    CloseKeep(u16),
    Len,
    /// subscribe through the control layer (`dispatch_async` with this connection's subscription context)
    SubscribeVia(u16, bool),
    /// unsubscribe through the control layer, as a request (false) or as a notification without id (true)
    UnsubscribeVia(u16, bool),
}

#[derive(Debug, Clone, Hash, Serialize, Deserialize)]
pub struct Case {
    pub caps: Vec<u8>,
    pub publishers: u8,
    pub ops: Vec<Op>,
    /// index into TOPIC_SETS
    #[serde(default)]
    pub topic_set: u8,
}

pub fn strategy(max_ops: usize) -> impl Strategy<Value = Case> {
    let op = prop_oneof![
        5 => (any::<u16>(), any::<bool>()).prop_map(|(c, t)| Op::Subscribe(c, t)),
        2 => any::<u16>().prop_map(Op::Unsubscribe),
        10 => (any::<bool>(), 0u8..3, prop_oneof![3 => Just(1u8), 2 => 2u8..6, 1 => 6u8..140]).prop_map(|(t, p, n)| Op::Publish(t, p, n)),
        4 => any::<u16>().prop_map(Op::RecvOne),
        2 => any::<u16>().prop_map(Op::RecvAll),
        1 => any::<u16>().prop_map(Op::Close),
        1 => any::<u16>().prop_map(Op::CloseKeep),
        2 => Just(Op::Len),
        3 => (any::<u16>(), any::<bool>()).prop_map(|(c, t)| Op::SubscribeVia(c, t)),
        2 => (any::<u16>(), any::<bool>()).prop_map(|(s, n)| Op::UnsubscribeVia(s, n)),
    ];
    (vec(0u8..CAPS.len() as u8, 1..=4), 1u8..=3, vec(op, 1..max_ops), prop_oneof![3 => Just(0u8), 1 => Just(1u8), 1 => Just(2u8), 1 => Just(3u8)])
        .prop_map(|(caps, publishers, ops, topic_set)| Case { caps, publishers, ops, topic_set })
}

struct Conn {
    tx: mpsc::Sender<String>,
    rx: Option<mpsc::Receiver<String>>,
    cap: usize,
    queued: usize,
    closed: bool,
    /// the control layer's per-connection list of owned subscription ids
    owned: Vec<String>,
    /// this connection's own handle of the hub (the control socket gives every connection a clone)
    hub: SubscriptionHub,
}

struct Sub {
    id: String,
    conn: usize,
    topic: usize,
    unsubscribed: bool,
    /// index of the op in which the (first) unsubscribe completed
    unsub_at: Option<usize>,
    /// last event number seen per publisher
    last_seen: Vec<Option<u64>>,
    pruned_possible: bool,
}

/// Poll a publish future a few times: it must complete without anybody else running.
fn poll_publish<F: Future<Output = ()>>(f: F) -> bool {
    let mut f = pin!(f);
    let mut cx = Context::from_waker(Waker::noop());
    for _ in 0..3 {
        if f.as_mut().poll(&mut cx).is_ready() {
            return true;
        }
    }
    false
}

thread_local! {
    /// One current-thread runtime per worker: the hub is used inside a runtime in production, so anything it spawns
    /// must find one; spawned tasks run only when the harness lets them (`settle`), between operations.
    static RT: tokio::runtime::Runtime = tokio::runtime::Builder::new_current_thread().enable_time().build().expect("runtime");
}

/// Let whatever the hub may have spawned run until it is idle (no operation of the history is in progress).
fn settle() {
    RT.with(|rt| {
        rt.block_on(async {
            for _ in 0..4 {
                tokio::task::yield_now().await;
            }
        })
    });
}

pub fn check(case: &Case, obs: &mut Obs) -> CheckResult {
    RT.with(|rt| {
        let _g = rt.enter();
        check_in_runtime(case, obs)
    })
}

fn check_in_runtime(case: &Case, obs: &mut Obs) -> CheckResult {
    #[allow(non_snake_case)]
    let TOPICS: [&str; 2] = TOPIC_SETS[case.topic_set as usize % TOPIC_SETS.len()];
    if case.topic_set % TOPIC_SETS.len() as u8 != 0 {
        obs.class("topic-names-one-a-prefix-of-the-other");
    }
    let hub = SubscriptionHub::new();
    let mut conns: Vec<Conn> = case
        .caps
        .iter()
        .map(|c| {
            let cap = CAPS[*c as usize % CAPS.len()];
            let (tx, rx) = mpsc::channel::<String>(cap);
            Conn { tx, rx: Some(rx), cap, queued: 0, closed: false, owned: Vec::new(), hub: hub.clone() }
        })
        .collect();
    let mut subs: Vec<Sub> = Vec::new();
    let np = case.publishers as usize;
    let (ctl_cfg, ctl_stats, ctl_cw) = (srtla_send::config::DynamicConfig::new(), srtla_send::stats::SharedStats::new(), srtla_core::priority::CriticalWindow::new());
    // per (publisher, topic) event counter
    let mut counters = vec![[0u64; 2]; np];
    // every publish: (publisher, topic, n, op index)
    let mut delivered = 0u64;
    let mut full_drops = 0u64;
    let mut unexplained_gaps = 0u64;
    let mut raced = false;

    let receive = |conns: &mut Vec<Conn>, subs: &mut Vec<Sub>, ci: usize, max: usize, oi: usize, delivered: &mut u64, unexplained: &mut u64| -> CheckResult {
        if conns[ci].rx.is_none() {
            return Ok(());
        }
        let mut got = 0;
        while got < max {
            let line = match conns[ci].rx.as_mut().unwrap().try_recv() {
                Ok(l) => l,
                Err(_) => break,
            };
            got += 1;
            conns[ci].queued = conns[ci].queued.saturating_sub(1);
            let v: Value = match serde_json::from_str(&line) {
                Ok(v) => v,
                Err(e) => return crate::rt::viol("push-not-json", format!("op {oi}: pushed line is not JSON ({e}): {line}")),
            };
            vensure!(v.get("jsonrpc") == Some(&json!("2.0")) && v.get("id").is_none(), "push-not-notification", "op {oi}: pushed line is not a JSON-RPC notification: {line}");
            let sid = v["params"]["subscription_id"].as_str().unwrap_or("");
            let Some(s) = subs.iter_mut().find(|s| s.id == sid) else {
                return crate::rt::viol("push-unknown-subscription", format!("op {oi}: line carries unknown subscription id {sid:?}"));
            };
            vensure!(s.conn == ci, "push-on-foreign-connection", "op {oi}: connection {ci} received an event tagged with subscription {sid} of connection {}", s.conn);
            let exp_method = format!("{}.update", TOPICS[s.topic]);
            vensure!(v["method"].as_str() == Some(exp_method.as_str()), "push-wrong-topic", "op {oi}: subscription {sid} ({}) received method {}", TOPICS[s.topic], v["method"]);
            let d = &v["params"]["data"];
            vensure!(d["topic"].as_u64() == Some(s.topic as u64), "push-wrong-topic", "op {oi}: subscription {sid} ({}) received an event published on topic {}", TOPICS[s.topic], d["topic"]);
            let p = d["pub"].as_u64().unwrap_or(u64::MAX) as usize;
            let n = d["n"].as_u64().unwrap_or(u64::MAX);
            vensure!(p < s.last_seen.len(), "push-corrupted", "op {oi}: event data corrupted: {d}");
            if let Some(prev) = s.last_seen[p] {
                vensure!(n > prev, if n == prev { "event-duplicated" } else { "event-reordered" }, "op {oi}: subscription {sid} received event {n} of publisher {p} after {prev}");
                if n > prev + 1 {
                    *unexplained += 1; // gaps are allowed (delivery is not promised); counted only
                }
            }
            s.last_seen[p] = Some(n);
            // nothing from a publish that started after the unsubscribe completed
            let published_in_op = d["op"].as_u64().unwrap_or(0) as usize;
            if let Some(u) = s.unsub_at {
                vensure!(published_in_op < u, "event-after-unsubscribe", "op {oi}: subscription {sid} was unsubscribed in op {u} but received an event published in op {published_in_op}");
            }
            *delivered += 1;
        }
        Ok(())
    };

    for (oi, op) in case.ops.iter().enumerate() {
        match op {
            Op::Subscribe(c, t) => {
                let ci = idx(*c, conns.len());
                let topic = *t as usize;
                // through the connection's own clone of the hub
                let id = block_on_simple(conns[ci].hub.subscribe(TOPICS[topic], conns[ci].tx.clone()));
                vensure!(subs.iter().all(|s| s.id != id), "subscription-id-reused", "op {oi}: subscription id {id} handed out twice");
                subs.push(Sub { id, conn: ci, topic, unsubscribed: false, unsub_at: None, last_seen: vec![None; np], pruned_possible: false });
            }
            Op::Unsubscribe(s) => {
                if subs.is_empty() {
                    continue;
                }
                let si = idx(*s, subs.len());
                let id = subs[si].id.clone();
                let removed = block_on_simple(hub.unsubscribe(&id));
                if !subs[si].unsubscribed && !subs[si].pruned_possible {
                    vensure!(removed, "unsubscribe-missed", "op {oi}: unsubscribe({id}) reported absent although it was subscribed");
                }
                if subs[si].unsubscribed {
                    vensure!(!removed, "unsubscribe-twice", "op {oi}: second unsubscribe({id}) reported present");
                }
                subs[si].unsubscribed = true;
                if subs[si].unsub_at.is_none() {
                    subs[si].unsub_at = Some(oi);
                }
                if conns[subs[si].conn].queued > 0 {
                    raced = true;
                }
            }
            Op::SubscribeVia(c, t) if case.topic_set as usize % TOPIC_SETS.len() != 0 => {
                // the control layer only admits the production topics: same as Subscribe
                let ci = idx(*c, conns.len());
                let topic = *t as usize;
                let id = block_on_simple(conns[ci].hub.subscribe(TOPICS[topic], conns[ci].tx.clone()));
                vensure!(subs.iter().all(|s| s.id != id), "subscription-id-reused", "op {oi}: subscription id {id} handed out twice");
                subs.push(Sub { id, conn: ci, topic, unsubscribed: false, unsub_at: None, last_seen: vec![None; np], pruned_possible: false });
            }
            Op::SubscribeVia(c, t) => {
                let ci = idx(*c, conns.len());
                let topic = *t as usize;
                let line = format!(r#"{{"jsonrpc":"2.0","id":{oi},"method":"subscribe","params":{{"topic":"{}"}}}}"#, TOPICS[topic]);
                let resp = {
                    let Conn { tx, owned, hub: own, .. } = &mut conns[ci];
                    let mut sctx = srtla_send::control::SubscriptionContext { hub: own, push_tx: tx.clone(), owned_ids: owned };
                    block_on_simple(srtla_send::control::dispatch_async(&ctl_cfg, Some(&ctl_stats), Some(&ctl_cw), Some(&mut sctx), &line))
                };
                let v: Value = resp.map(|r| serde_json::from_str(&r.to_json()).unwrap_or(Value::Null)).unwrap_or(Value::Null);
                let id = v["result"]["subscription_id"].as_str().unwrap_or("").to_string();
                vensure!(!id.is_empty() && v["id"] == json!(oi), "subscribe-failed", "op {oi}: subscribe request answered {v}");
                vensure!(subs.iter().all(|s| s.id != id), "subscription-id-reused", "op {oi}: subscription id {id} handed out twice");
                vensure!(conns[ci].owned.contains(&id), "subscription-not-owned", "op {oi}: the connection's owned-id list lacks {id} after subscribe");
                subs.push(Sub { id, conn: ci, topic, unsubscribed: false, unsub_at: None, last_seen: vec![None; np], pruned_possible: false });
                obs.class("subscribe-via-control-layer");
            }
            Op::UnsubscribeVia(s, notification) => {
                if subs.is_empty() {
                    continue;
                }
                let si = idx(*s, subs.len());
                let id = subs[si].id.clone();
                let ci = subs[si].conn;
                let line = if *notification {
                    format!(r#"{{"jsonrpc":"2.0","method":"unsubscribe","params":{{"subscription_id":"{id}"}}}}"#)
                } else {
                    format!(r#"{{"jsonrpc":"2.0","id":{oi},"method":"unsubscribe","params":{{"subscription_id":"{id}"}}}}"#)
                };
                let resp = {
                    let Conn { tx, owned, .. } = &mut conns[ci];
                    let mut sctx = srtla_send::control::SubscriptionContext { hub: &hub, push_tx: tx.clone(), owned_ids: owned };
                    block_on_simple(srtla_send::control::dispatch_async(&ctl_cfg, Some(&ctl_stats), Some(&ctl_cw), Some(&mut sctx), &line))
                };
                if *notification {
                    vensure!(resp.is_none(), "notification-answered", "op {oi}: unsubscribe notification was answered");
                    obs.class("unsubscribe-as-notification");
                } else {
                    let v: Value = resp.map(|r| serde_json::from_str(&r.to_json()).unwrap_or(Value::Null)).unwrap_or(Value::Null);
                    let removed = v["result"]["removed"].as_bool();
                    vensure!(removed.is_some() && v["id"] == json!(oi), "unsubscribe-failed", "op {oi}: unsubscribe request answered {v}");
                    if !subs[si].unsubscribed && !subs[si].pruned_possible {
                        vensure!(removed == Some(true), "unsubscribe-missed", "op {oi}: unsubscribe({id}) reported absent although it was subscribed");
                    }
                    if subs[si].unsubscribed {
                        vensure!(removed == Some(false), "unsubscribe-twice", "op {oi}: second unsubscribe({id}) reported present");
                    }
                }
                // the hub no longer knows the id: a second, direct unsubscribe finds nothing
                let again = block_on_simple(hub.unsubscribe(&id));
                vensure!(!again, "unsubscribe-not-applied", "op {oi}: unsubscribe({id}) through the control layer ({}) left the subscription in the hub", if *notification { "notification" } else { "request" });
                vensure!(!conns[ci].owned.contains(&id), "subscription-still-owned", "op {oi}: the connection's owned-id list still holds {id} after unsubscribe");
                subs[si].unsubscribed = true;
                if subs[si].unsub_at.is_none() {
                    subs[si].unsub_at = Some(oi);
                }
                if conns[ci].queued > 0 {
                    raced = true;
                }
            }
            Op::Publish(t, p, n) => {
                let topic = *t as usize;
                let p = *p as usize % np;
                for _ in 0..*n {
                    counters[p][topic] += 1;
                    let data = json!({"pub": p, "n": counters[p][topic], "topic": topic, "op": oi});
                    let done = poll_publish(hub.publish(TOPICS[topic], data));
                    vensure!(done, "publish-blocked", "op {oi}: publish on {} did not complete without a subscriber running (some channel full or closed)", TOPICS[topic]);
                    // model the channels: who should have got it
                    for s in subs.iter_mut() {
                        if s.unsubscribed || s.topic != topic {
                            continue;
                        }
                        let c = &mut conns[s.conn];
                        if c.closed {
                            s.pruned_possible = true;
                            continue;
                        }
                        if s.pruned_possible {
                            continue;
                        }
                        if c.queued < c.cap {
                            c.queued += 1;
                        } else {
                            full_drops += 1;
                        }
                    }
                }
            }
            Op::RecvOne(c) | Op::RecvAll(c) => {
                let ci = idx(*c, conns.len());
                let max = if matches!(op, Op::RecvOne(_)) { 1 } else { usize::MAX };
                // lines for an unsubscribed subscription may still be queued from before; the rule is about publishes that started after
                receive(&mut conns, &mut subs, ci, max, oi, &mut delivered, &mut unexplained_gaps)?;
            }
            Op::Close(c) => {
                let ci = idx(*c, conns.len());
                if let Some(rx) = conns[ci].rx.take() {
                    // drain what is queued first so the order checks see it
                    conns[ci].rx = Some(rx);
                    receive(&mut conns, &mut subs, ci, usize::MAX, oi, &mut delivered, &mut unexplained_gaps)?;
                    conns[ci].rx = None;
                    conns[ci].closed = true;
                    conns[ci].queued = 0;
                }
            }
            Op::CloseKeep(c) => {
                let ci = idx(*c, conns.len());
                if let Some(rx) = conns[ci].rx.as_mut() {
                    rx.close();
                    conns[ci].closed = true;
                    if conns[ci].queued >= conns[ci].cap {
                        obs.class("closed-while-full");
                    }
                }
            }
            Op::Len => {}
        }
        // background work the hub may have started is allowed to run between operations
        settle();
        // pruning / counting: live subscriptions are counted, closed ones of a published topic are not
        let len = block_on_simple(hub.len());
        let live = subs.iter().filter(|s| !s.unsubscribed && !conns[s.conn].closed).count();
        let upper = subs.iter().filter(|s| !s.unsubscribed && !s.pruned_possible).count();
        vensure!(len >= live, "live-subscription-lost", "op {oi}: hub counts {len} subscriptions, {live} live ones exist");
        vensure!(len <= upper, "closed-subscriber-not-pruned", "op {oi}: hub counts {len} subscriptions, at most {upper} can remain after closed receivers met a publish");
    }
    // final drain: everything still queued obeys the rules too
    for ci in 0..conns.len() {
        receive(&mut conns, &mut subs, ci, usize::MAX, case.ops.len(), &mut delivered, &mut unexplained_gaps)?;
    }
    if full_drops > 0 {
        obs.class("full-channel-drop");
    }
    if raced {
        obs.class("unsubscribe-with-queued-events");
    }
    if conns.iter().any(|c| c.closed) {
        obs.class("receiver-closed");
    }
    if subs.iter().any(|s| s.pruned_possible) {
        obs.class("closed-receiver-met-publish");
    }
    obs.count("events-delivered", delivered);
    obs.count("full-channel-drops", full_drops);
    obs.count("gaps-in-received-numbers", unexplained_gaps);
    obs.nontrivial = full_drops > 0 && (raced || subs.iter().any(|s| s.pruned_possible));
    if obs.nontrivial {
        obs.sample = Some(json!({"caps": case.caps.iter().map(|c| CAPS[*c as usize % CAPS.len()]).collect::<Vec<_>>(), "publishers": np, "n_ops": case.ops.len(), "delivered": delivered, "full_drops": full_drops,
            "first_ops": format!("{:?}", &case.ops[..case.ops.len().min(10)])}));
    }
    Ok(())
}

// ---------------------------------------------------------------- real threads

/// park/unpark block_on for OS threads (no runtime).
fn block_on_thread<F: Future>(f: F) -> F::Output {
    struct ThreadWaker(std::thread::Thread);
    impl std::task::Wake for ThreadWaker {
        fn wake(self: std::sync::Arc<Self>) {
            self.0.unpark();
        }
    }
    let waker: Waker = std::sync::Arc::new(ThreadWaker(std::thread::current())).into();
    let mut cx = Context::from_waker(&waker);
    let mut f = pin!(f);
    loop {
        if let Poll::Ready(v) = f.as_mut().poll(&mut cx) {
            return v;
        }
        std::thread::park_timeout(std::time::Duration::from_millis(50));
    }
}

/// Publishers, subscribers that never receive, and subscribe/unsubscribe churn on OS threads.
/// The publisher threads must finish their programs although nobody drains the channels.
fn real_threads(ctx: &Ctx, rounds: usize) {
    use std::sync::Arc;
    use std::sync::atomic::{AtomicBool, AtomicU64, Ordering};
    let mut total_events = 0u64;
    for round in 0..rounds {
        let hub = SubscriptionHub::new();
        let stuck = Arc::new(AtomicBool::new(false));
        let published = Arc::new(AtomicU64::new(0));
        // stalled subscribers: capacity 1, never received from
        let mut keep = Vec::new();
        for i in 0..3 {
            let (tx, rx) = mpsc::channel::<String>(1 + (i % 2));
            block_on_thread(hub.subscribe("stats", tx));
            keep.push(rx);
        }
        let closed = {
            let (tx, rx) = mpsc::channel::<String>(4);
            block_on_thread(hub.subscribe("stats", tx));
            drop(rx);
        };
        let _ = closed;
        let (obs_tx, mut obs_rx) = mpsc::channel::<String>(100_000);
        let obs_id = block_on_thread(hub.subscribe("stats", obs_tx));
        let done = Arc::new(AtomicU64::new(0));
        let npub = 2 + round % 2;
        let per = 3000u64;
        std::thread::scope(|s| {
            for p in 0..npub {
                let hub = hub.clone();
                let published = published.clone();
                let done = done.clone();
                s.spawn(move || {
                    for n in 1..=per {
                        block_on_thread(hub.publish("stats", json!({"pub": p, "n": n})));
                        published.fetch_add(1, Ordering::Relaxed);
                    }
                    done.fetch_add(1, Ordering::Release);
                });
            }
            // churn thread
            {
                let hub = hub.clone();
                let done = done.clone();
                s.spawn(move || {
                    let mut k = 0u64;
                    while done.load(Ordering::Acquire) < npub as u64 && k < 200_000 {
                        let (tx, _rx) = mpsc::channel::<String>(1);
                        let id = block_on_thread(hub.subscribe(if k % 2 == 0 { "stats" } else { "priority.window" }, tx));
                        block_on_thread(hub.unsubscribe(&id));
                        k += 1;
                    }
                });
            }
            // watchdog: publishers must finish although three subscribers never drain
            {
                let done = done.clone();
                let stuck = stuck.clone();
                let published = published.clone();
                s.spawn(move || {
                    let start = std::time::Instant::now();
                    let mut last = 0u64;
                    let mut last_progress = std::time::Instant::now();
                    while done.load(Ordering::Acquire) < npub as u64 {
                        std::thread::sleep(std::time::Duration::from_millis(20));
                        let p = published.load(Ordering::Relaxed);
                        if p != last {
                            last = p;
                            last_progress = std::time::Instant::now();
                        }
                        // no progress at all for 20 s while only never-draining subscribers exist: the publisher waits on a subscriber
                        if last_progress.elapsed().as_secs() >= 20 {
                            stuck.store(true, Ordering::SeqCst);
                            eprintln!("real-thread tier: publishers made no progress for 20 s ({} published after {:?})", p, start.elapsed());
                            std::process::exit(2); // inconclusive, never a violation (the hand-polled tier decides blocking)
                        }
                    }
                });
            }
        });
        // per-publisher order at the observing subscriber
        let mut last = vec![0u64; npub];
        let mut n_seen = 0u64;
        while let Ok(line) = obs_rx.try_recv() {
            let v: Value = serde_json::from_str(&line).unwrap_or(Value::Null);
            let p = v["params"]["data"]["pub"].as_u64().unwrap_or(99) as usize;
            let n = v["params"]["data"]["n"].as_u64().unwrap_or(0);
            let ok = v["method"] == json!("stats.update") && v["params"]["subscription_id"].as_str() == Some(obs_id.as_str()) && p < npub && n > last[p];
            if !ok {
                ctx.report_violation(
                    "real-threads",
                    &crate::rt::Violation { sig: "threads-order-or-tag".into(), msg: format!("observer received {line} after event {} of that publisher", last.get(p).copied().unwrap_or(0)) },
                    json!({"round": round}),
                );
                return;
            }
            last[p] = n;
            n_seen += 1;
        }
        total_events += n_seen;
        let remaining = block_on_thread(hub.len());
        // 3 stalled + observer remain; the closed one met a publish and must be gone; churn subscriptions all unsubscribed
        if remaining != 4 {
            ctx.report_violation(
                "real-threads",
                &crate::rt::Violation { sig: "threads-prune".into(), msg: format!("{remaining} subscriptions remain after the run, expected 4 (3 stalled + observer)") },
                json!({"round": round}),
            );
            return;
        }
        drop(keep);
    }
    ctx.extra("real_threads", json!({"rounds": rounds, "events_observed_in_order": total_events, "note": "publisher threads finished every program while three subscribers never drained their channels"}));
}

/// "Nothing is delivered after its unsubscribe has completed" with a publisher running on another OS thread:
/// a publisher loops over a large event with several slow subscribers ahead of the victim; the victim subscribes,
/// unsubscribes, drains, waits for two more complete publishes and must find its channel empty. A stress (the
/// overlap is the machine's), sound because the property promises it for every overlap.
/// Interleavings at the await points *inside* one publish. On one thread an uncontended lock only yields when the
/// task's cooperative budget (128 units per poll in tokio) is used up, so the publisher task first spends `burn`
/// units on cheap hub calls: sweeping `burn` moves the forced yield across every await point of `publish`. The task
/// queued behind it (an unsubscribe) then runs inside the publish, exactly where the budget ran out.
#[derive(Debug, Clone, Hash, Serialize, Deserialize)]
pub struct AwaitCase {
    pub burn: u16,
    pub doomed: u8,
    pub others: u8,
    /// the victim subscribes before (false) or after (true) the doomed ones (position in the hub's table)
    pub victim_last: bool,
}

pub fn check_await(c: &AwaitCase, obs: &mut Obs) -> CheckResult {
    let rt = tokio::runtime::Builder::new_current_thread().build().map_err(|e| crate::rt::Violation { sig: "harness".into(), msg: e.to_string() })?;
    let hub = SubscriptionHub::new();
    let (c_burn, c_doomed, c_others, victim_last) = (c.burn, c.doomed, c.others, c.victim_last);
    let out: Result<(bool, usize, usize, bool), String> = rt.block_on(async move {
        let mut keep = Vec::new();
        for _ in 0..c_others {
            let (tx, rx) = mpsc::channel::<String>(4);
            hub.subscribe("stats", tx).await;
            keep.push(rx);
        }
        let (vtx, mut vrx) = mpsc::channel::<String>(64);
        let mut vid = String::new();
        if !victim_last {
            vid = hub.subscribe("stats", vtx.clone()).await;
        }
        for _ in 0..c_doomed {
            // a subscriber whose connection is gone: the next publish has something to prune
            let (tx, rx) = mpsc::channel::<String>(1);
            hub.subscribe("stats", tx).await;
            drop(rx);
        }
        if victim_last {
            vid = hub.subscribe("stats", vtx.clone()).await;
        }
        let before = hub.len().await;
        let (h1, h2) = (hub.clone(), hub.clone());
        let vid2 = vid.clone();
        let publisher = tokio::spawn(async move {
            for _ in 0..c_burn {
                let _ = h1.is_empty().await;
            }
            h1.publish("stats", json!({"n": 1})).await;
        });
        let unsub = tokio::spawn(async move { h2.unsubscribe(&vid2).await });
        publisher.await.map_err(|e| e.to_string())?;
        let removed = unsub.await.map_err(|e| e.to_string())?;
        // whatever reached the victim before its unsubscribe completed is fine; drain it
        let mut early = 0usize;
        while vrx.try_recv().is_ok() {
            early += 1;
        }
        hub.publish("stats", json!({"n": 2})).await;
        let late = vrx.try_recv().is_ok();
        let after = hub.len().await;
        drop(keep);
        Ok((removed, before, after, late || early > 1))
    });
    let (removed, before, after, late) = out.map_err(|e| crate::rt::Violation { sig: "harness".into(), msg: e })?;
    obs.class(if removed { "unsubscribe-found-the-id" } else { "unsubscribe-id-already-gone" });
    obs.nontrivial = c.doomed > 0;
    vensure!(removed, "unsubscribe-returned-false", "burn {}: unsubscribe of a live subscription returned false", c.burn);
    vensure!(!late, "event-after-unsubscribe", "burn {}: the subscription was unsubscribed (returned true) while a publish was suspended at one of its await points; the next publish still delivered to it", c.burn);
    let expect = before - 1 - c.doomed as usize;
    vensure!(after == expect, "hub-count-after-prune", "burn {}: hub holds {after} subscriptions after the unsubscribe and two publishes, expected {expect} (of {before}: one unsubscribed, {} closed)", c.burn, c.doomed);
    obs.sample = Some(json!({"burn": c.burn, "doomed": c.doomed, "others": c.others}));
    Ok(())
}

fn unsubscribe_race(ctx: &Ctx, rounds: usize) {
    use std::sync::atomic::{AtomicBool, AtomicU64, Ordering};
    if ctx.failed() {
        return;
    }
    let hub = SubscriptionHub::new();
    let stop = AtomicBool::new(false);
    let published = AtomicU64::new(0);
    let mut late: Option<String> = None;
    let mut keep = Vec::new();
    for _ in 0..8 {
        let (tx, rx) = mpsc::channel::<String>(1);
        block_on_thread(hub.subscribe("stats", tx));
        keep.push(rx);
    }
    let blob: Value = json!({"links": (0..300).map(|i| json!({"ip": format!("10.0.{}.{}", i / 250, i % 250), "window": 20000 + i, "in_flight": i, "weak": false, "label": "x".repeat(40)})).collect::<Vec<_>>()});
    std::thread::scope(|s| {
        {
            let hub = hub.clone();
            let (stop, published) = (&stop, &published);
            let blob = blob.clone();
            s.spawn(move || {
                while !stop.load(Ordering::Relaxed) {
                    block_on_thread(hub.publish("stats", blob.clone()));
                    published.fetch_add(1, Ordering::Release);
                }
            });
        }
        for r in 0..rounds {
            let (tx, mut rx) = mpsc::channel::<String>(64);
            let id = block_on_thread(hub.subscribe("stats", tx));
            // let a publish or two reach it
            let p0 = published.load(Ordering::Acquire);
            while published.load(Ordering::Acquire) < p0 + 1 {
                std::hint::spin_loop();
            }
            let removed = block_on_thread(hub.unsubscribe(&id));
            while rx.try_recv().is_ok() {}
            let p1 = published.load(Ordering::Acquire);
            while published.load(Ordering::Acquire) < p1 + 2 {
                std::hint::spin_loop();
            }
            if let Ok(line) = rx.try_recv() {
                late = Some(format!("round {r}: unsubscribe({id}) returned {removed}; two complete publishes later the channel held an event of {} bytes", line.len()));
                break;
            }
        }
        stop.store(true, Ordering::Relaxed);
    });
    drop(keep);
    ctx.extra("unsubscribe_race", json!({"rounds": rounds, "publishes": published.load(Ordering::Relaxed), "late_deliveries": late.is_some()}));
    if let Some(l) = late {
        ctx.report_violation("unsubscribe-race", &crate::rt::Violation { sig: "threads-event-after-unsubscribe".into(), msg: l }, json!({"stress": true}));
    }
}

/// Publication order as a socket client sees it: a subscription made over the real control socket, then bursts of
/// events published back to back (several are queued on the connection when its writer runs); the lines must
/// arrive in publication order, each once, tagged with the subscription's id.
fn socket_push_order(ctx: &Ctx, bursts: usize) {
    use std::io::{BufRead, BufReader, Write};
    if ctx.failed() {
        return;
    }
    let Ok(rt) = tokio::runtime::Builder::new_multi_thread().worker_threads(1).enable_all().build() else { return };
    let dir = crate::rt::verif_dir().join("harness").join("target");
    let _ = std::fs::create_dir_all(&dir);
    let path = dir.join(format!("c20-{}.sock", std::process::id()));
    let _ = std::fs::remove_file(&path);
    let hub = SubscriptionHub::new();
    {
        let (p, h) = (path.to_str().unwrap_or_default().to_string(), hub.clone());
        rt.spawn(async move {
            let _ = srtla_send::control_socket::spawn(p, srtla_send::config::DynamicConfig::new(), srtla_send::stats::SharedStats::new(), srtla_core::priority::CriticalWindow::new(), h).await;
        });
    }
    let mut stream = None;
    for _ in 0..500 {
        if let Ok(s) = std::os::unix::net::UnixStream::connect(&path) {
            stream = Some(s);
            break;
        }
        std::thread::sleep(std::time::Duration::from_millis(10));
    }
    let Some(mut stream) = stream else {
        ctx.extra("socket_push_order", json!({"skipped": "the control socket did not come up"}));
        return;
    };
    let _ = stream.set_read_timeout(Some(std::time::Duration::from_secs(5)));
    let _ = stream.write_all(b"{\"jsonrpc\":\"2.0\",\"id\":1,\"method\":\"subscribe\",\"params\":{\"topic\":\"priority.window\"}}\n");
    let mut r = BufReader::new(stream);
    let mut l = String::new();
    let _ = r.read_line(&mut l);
    let sid = serde_json::from_str::<Value>(&l).ok().and_then(|v| v["result"]["subscription_id"].as_str().map(String::from)).unwrap_or_default();
    let mut next = 0u64;
    let mut bad: Option<String> = None;
    let mut seen = 0u64;
    'outer: for b in 0..bursts {
        let k = [1usize, 2, 6, 20, 3][b % 5];
        let first = next;
        rt.block_on(async {
            for _ in 0..k {
                hub.publish("priority.window", json!({"n": next})).await;
                next += 1;
            }
        });
        // delivery itself is not promised (a full channel drops): gaps are accepted, order and tags are not negotiable
        let mut last_n: Option<u64> = None;
        loop {
            if last_n == Some(next - 1) {
                break;
            }
            l.clear();
            if !r.read_line(&mut l).is_ok_and(|n| n > 0) {
                break; // nothing more within 5 s: the rest was dropped (counted as not seen)
            }
            let v: Value = serde_json::from_str(&l).unwrap_or(Value::Null);
            let n = v["params"]["data"]["n"].as_u64();
            let ok = n.is_some_and(|n| n >= first && n < next && last_n.is_none_or(|p| n > p)) && v["params"]["subscription_id"].as_str() == Some(sid.as_str());
            if !ok {
                bad = Some(format!("burst of {k} events published back to back ({first}..{}): the socket client read event {:?} (subscription {}) after event {:?}; publication order, own id {sid}", next - 1, n, v["params"]["subscription_id"], last_n));
                break 'outer;
            }
            last_n = n;
            seen += 1;
        }
    }
    let _ = std::fs::remove_file(&path);
    ctx.extra("socket_push_order", json!({"bursts": bursts, "events_read_in_order": seen}));
    if let Some(msg) = bad {
        ctx.report_violation("socket-push-order", &crate::rt::Violation { sig: "socket-events-out-of-order".into(), msg }, json!({"stress": false}));
    }
    rt.shutdown_background();
}

pub fn run(ctx: &Ctx) -> &'static str {
    ctx.assume("hub futures are polled by hand with a no-op waker: a publish must become Ready within 3 polls while nothing else runs, so waiting on a full or closed subscriber shows up as a pending future");
    ctx.assume("no task suspends while holding the hub lock, so in the interleavings part the operations are interleaved whole; the await points inside one publish are reached by the await-points part (the publisher task's cooperative budget runs out at a swept position, the next task runs there); lock contention between OS threads is only sampled by the stress tiers");
    ctx.assume("delivery itself is not promised (full channels drop): order, at-most-once, topic, own id, nothing after unsubscribe, pruning and non-blocking publish are asserted; delivered events are counted so a vacuous pass is visible");
    for (file, body) in ctx.replay_files() {
        if !ctx.replay_case::<Case, _>("interleavings", &file, &body, check) && !ctx.replay_case::<AwaitCase, _>("await-points", &file, &body, check_await) {
            if body["part"].as_str() == Some("unsubscribe-race") {
                unsubscribe_race(ctx, 5_000);
            } else if body["part"].as_str() == Some("socket-push-order") {
                socket_push_order(ctx, 200);
            } else {
                eprintln!("replay {}: unknown part", file.display());
            }
        }
    }
    if ctx.replay.is_some() {
        return "exploration";
    }
    let mo = ctx.tier.pick(60, 150);
    ctx.explore(
        "interleavings",
        "generated interleavings of subscribe / unsubscribe / publish bursts (1..139 events, 1..3 publishers numbering their events per topic) / receive-one / receive-all / close over 1..4 connections with channel capacities 1, 2, 8, 128; per-connection line monitor; non-trivial = >= 1 full-channel drop and (an unsubscribe with events still queued, or a closed receiver that met a publish)",
        ctx.tier.pick(100_000, 1_000_000),
        || strategy(mo),
        |_| check,
    );
    let burns: u16 = 400;
    let cases = (0..=burns).flat_map(|burn| {
        [(1u8, 0u8), (1, 3), (2, 0), (3, 5), (0, 2)].into_iter().flat_map(move |(doomed, others)| [false, true].into_iter().map(move |victim_last| AwaitCase { burn, doomed, others, victim_last }))
    });
    ctx.enumerate(
        "await-points",
        "a publish suspended at each of its await points: the publisher task spends 0..400 units of tokio's cooperative budget before publishing (the forced yield moves across every lock acquisition of publish), an unsubscribe task runs where it yields; 0..3 closed subscribers to prune, 0..5 bystanders, victim before / after the closed ones; afterwards the victim gets nothing from the next publish and the hub's count is exact; non-trivial = the publish had something to prune",
        true,
        cases,
        check_await,
    );
    if ctx.tier == Tier::Thorough && !ctx.failed() {
        real_threads(ctx, 6);
    }
    socket_push_order(ctx, ctx.tier.pick(40, 600));
    unsubscribe_race(ctx, ctx.tier.pick(800, 20_000));
    crate::props::e2e::run(ctx, crate::props::e2e::Phase::Subscription, ctx.tier.pick(1, 2));
    "exploration"
}

//! C10 — classic mode reproduces the reference srtla_send algorithm.
//! Closed-loop histories on the real shell (classic mode, guard off) in
//! lock-step with `refmodel::classic`, an independent re-implementation of the
//! reference select / register / ACK / NAK rules.

use proptest::collection::vec;
use proptest::prelude::*;
use serde::{Deserialize, Serialize};
use serde_json::json;
use srtla_core::connection::LinkPhase;
use srtla_core::{ConfigSnapshot, SchedulingMode};

use crate::engine::selstate::TIMEOUTS;
use crate::engine::shell::Shell;
use srtla_send::sender::verif_hooks as vh;
use crate::props::acct::Owners;
use crate::refmodel::classic::{RefLink, RefSender};
use crate::rt::{CheckResult, Ctx, Obs, idx};

#[derive(Debug, Clone, Hash, Serialize, Deserialize)]
pub enum Op {
    /// kind: 0 data, 1 retransmit-flagged data (re-uses an earlier seq), 2 control
    Client(u8, u8, u8),
    Critical(u16),
    Flush,
    SrtlaAck(u16, Vec<u16>),
    CumAck(u16, u16),
    Nak(u16, Vec<u16>),
    Inbound(u16),
    Reg3(u16),
    Housekeeping,
    Advance(u32),
}

#[derive(Debug, Clone, Hash, Serialize, Deserialize)]
pub struct Case {
    pub windows: Vec<u16>,
    pub timeout: u8,
    pub quality: bool,
    pub ops: Vec<Op>,
    /// a stall pre-history run with the guard ON before it is switched off at run time:
    /// (victim link, its silence in ms, routing decisions taken meanwhile)
    #[serde(default)]
    pub pre_stall: Option<(u8, u16, u8)>,
    /// packets already outstanding on each link when the history starts (registered through the production call):
    /// with a window of 1000 and 1000 outstanding every quotient is 0
    #[serde(default)]
    pub pre_load: Vec<u16>,
}

fn adv() -> impl Strategy<Value = u32> {
    prop_oneof![
        5 => proptest::sample::select(vec![0u32, 1, 14, 15, 16, 100, 999, 1000, 1001, 2499, 2500, 2501, 4999, 5000, 5001]),
        3 => 0u32..200,
        1 => 0u32..20_000,
    ]
}

pub fn strategy(max_ops: usize) -> impl Strategy<Value = Case> {
    let win = prop_oneof![Just(1000u16), Just(1001), Just(1099), Just(1100), Just(2000), Just(20_000), Just(59_970), Just(59_971), Just(59_999), Just(60_000), 1000u16..=60_000, 1000u16..3000];
    let op = prop_oneof![
        20 => (prop_oneof![6 => Just(0u8), 2 => Just(1u8), 1 => Just(2u8)], prop_oneof![3 => Just(1u8), 3 => 2u8..20, 1 => 20u8..70], 1u8..60).prop_map(|(k, n, b)| Op::Client(k, n, b)),
        1 => prop_oneof![Just(1u16), 1u16..300, Just(3000)].prop_map(Op::Critical),
        6 => Just(Op::Flush),
        10 => (any::<u16>(), vec(any::<u16>(), 1..12)).prop_map(|(a, p)| Op::SrtlaAck(a, p)),
        3 => (any::<u16>(), any::<u16>()).prop_map(|(a, p)| Op::CumAck(a, p)),
        6 => (any::<u16>(), vec(any::<u16>(), 1..6)).prop_map(|(a, p)| Op::Nak(a, p)),
        4 => any::<u16>().prop_map(Op::Inbound),
        1 => any::<u16>().prop_map(Op::Reg3),
        3 => Just(Op::Housekeeping),
        8 => adv().prop_map(Op::Advance),
    ];
    let pre = prop_oneof![
        7 => Just(None),
        3 => (any::<u8>(), prop_oneof![Just(250u16), Just(251), Just(300), 200u16..900], 1u8..6).prop_map(Some),
    ];
    (vec(win, 1..=4), 0u8..TIMEOUTS.len() as u8, any::<bool>(), vec(op, 1..max_ops), pre, prop::option::weighted(0.15, vec(prop_oneof![Just(1000u16), Just(999), Just(1001), Just(2000), 0u16..1200], 4)))
        .prop_map(|(mut windows, timeout, quality, ops, pre_stall, load)| {
            let mut pre_load = Vec::new();
            if let Some(l) = load
                && pre_stall.is_none()
            {
                // small windows so that the load can use them up
                for w in windows.iter_mut() {
                    *w = [1000u16, 1000, 1999, 2000][*w as usize % 4];
                }
                pre_load = l[..windows.len()].to_vec();
            }
            Case { windows, timeout, quality, ops, pre_stall, pre_load }
        })
}

fn client_pkt(kind: u8, seq: u32, counter: u32) -> Vec<u8> {
    let mut p = vec![0u8; 40];
    if kind == 2 {
        p[0] = 0x80;
        p[1] = 0x06;
    } else {
        p[0..4].copy_from_slice(&(seq & 0x7fff_ffff).to_be_bytes());
        p[4] = 0xc0 | if kind == 1 { 0x04 } else { 0 };
    }
    p[16..20].copy_from_slice(&counter.to_be_bytes());
    p[20..24].copy_from_slice(&(counter ^ 0x5a5a_5a5a).to_be_bytes());
    p
}

pub fn check(case: &Case, obs: &mut Obs, ctx: &Ctx) -> CheckResult {
    let n = case.windows.len();
    let addrs: Vec<u8> = (0..n as u8).collect();
    let timeout = TIMEOUTS[case.timeout as usize % TIMEOUTS.len()];
    let cfg = ConfigSnapshot {
        mode: SchedulingMode::Classic,
        quality_enabled: case.quality,
        stall_deselect: false,
        conn_timeout_ms: timeout,
        ..ConfigSnapshot::default()
    };
    let mut sh = Shell::new(&addrs, cfg);
    sh.establish_all();
    let now0 = sh.now();
    let mut model = RefSender {
        links: (0..n)
            .map(|i| RefLink {
                window: case.windows[i] as i32,
                registered: true,
                connected: true,
                last_rx: Some(now0),
                ..Default::default()
            })
            .collect(),
        timeout_ms: timeout,
    };
    // "starting from any window vector": the statement quantifies over it
    for i in 0..n {
        sh.st.conns[i].window = case.windows[i] as i32;
    }
    for (i, k) in case.pre_load.iter().enumerate().take(n) {
        let now = sh.now();
        for j in 0..*k as u32 {
            let seq = 0x2000_0000 + i as u32 * 0x1_0000 + j;
            sh.st.conns[i].register_packet(seq as i32, now);
            model.links[i].held.insert(seq);
        }
        if model.score(i) == 0 {
            obs.class("link-starts-with-quotient-0");
        }
    }
    let mut owners = Owners::default();
    let mut counter: u32 = 5000;
    let mut next_seq: u32 = 100;
    // the guard was on and is switched off at run time: one link is loaded, falls silent while another stays
    // healthy and decisions are taken (silence pull / latch engage), everything is then acknowledged through the
    // healthy link, the guard goes off and the reference model is re-synchronised from the links' real state
    if let Some((v, silent_ms, decisions_meanwhile)) = case.pre_stall
        && n >= 2
    {
        let v = v as usize % n;
        let h = (v + 1) % n;
        sh.st.cfg.stall_deselect = true;
        let t = sh.now();
        for k in 0..40u32 {
            let pkt = client_pkt(0, 10 + k, 100 + k);
            let Shell { rt, st } = &mut sh;
            rt.block_on(vh::forward_via_connection(v, &pkt, Some(10 + k), &mut st.conns, &st.conn_io, &mut st.last_selected, &mut st.seq_tracker, t));
        }
        sh.flush_tick();
        sh.advance(silent_ms as u64);
        sh.uplink_pkt(h, &[0x80, 0x06, 0, 0, 0, 0, 0, 0]);
        for k in 0..decisions_meanwhile as u32 {
            sh.client_pkt(&client_pkt(0, 60 + k, 200 + k));
        }
        sh.flush_tick();
        let mut ack = vec![0u8; 44];
        ack[0] = 0x80;
        ack[1] = 0x02;
        ack[16..20].copy_from_slice(&99u32.to_be_bytes());
        sh.uplink_pkt(h, &ack);
        if sh.st.conns[v].is_stall_gated() {
            obs.class("guard-switched-off-with-a-gated-link");
        }
        sh.st.cfg.stall_deselect = false;
        let _ = sh.drain_wire();
        let _ = sh.drain_client();
        for i in 0..n {
            let c = &sh.st.conns[i];
            let l = &mut model.links[i];
            l.window = c.window;
            l.held = c.packet_log.keys().map(|s| *s as u32).collect();
            l.queued = c.batch_sender.verif_queue_snapshot().into_iter().map(|(_, s)| s).collect();
            l.registered = !matches!(c.phase, srtla_core::connection::LinkPhase::Registering);
            l.connected = c.connected;
            l.last_rx = c.last_received;
        }
    }
    let mut decisions = 0u64;
    let mut multi_score_decisions = 0u64;
    let mut window_changes = 0u64;

    for (oi, op) in case.ops.iter().enumerate() {
        let now = sh.now();
        match op {
            Op::Advance(d) => sh.advance(*d as u64),
            Op::Critical(ms) => {
                sh.st.critical.extend_to(now + *ms as u64);
            }
            Op::Flush => {
                sh.flush_tick();
                model.flush_all();
            }
            Op::Inbound(l) => {
                let li = idx(*l, n);
                sh.uplink_pkt(li, &[0x80, 0x06, 0, 0, 0, 0, 0, 0]);
                model.inbound(li, now);
            }
            Op::Reg3(l) => {
                let li = idx(*l, n);
                sh.deliver_reg3(li);
                model.reg3(li, now);
            }
            Op::Housekeeping => {
                sh.housekeeping_core();
                for i in 0..n {
                    let c = &sh.st.conns[i];
                    if model.links[i].connected && !c.connected && matches!(c.phase, LinkPhase::Registering) {
                        model.reset(i);
                        obs.class("link-torn-down");
                    }
                }
            }
            Op::SrtlaAck(a, picks) => {
                let ai = idx(*a, n);
                let all: Vec<u32> = model.all_held();
                let list: Vec<u32> = picks.iter().map(|p| if all.is_empty() || *p % 7 == 0 { 0x7000_0000 + *p as u32 } else { all[idx(*p, all.len())] }).collect();
                let mut p = vec![0x91, 0x00, 0, 0];
                for s in &list {
                    p.extend_from_slice(&s.to_be_bytes());
                }
                sh.uplink_pkt(ai, &p);
                model.inbound(ai, now);
                for s in &list {
                    model.srtla_ack(ai, *s);
                }
            }
            Op::CumAck(a, pick) => {
                let ai = idx(*a, n);
                let ack = if next_seq > 100 { 100 + (*pick as u32 % (next_seq - 100 + 5)) } else { 0 };
                let mut p = vec![0u8; 44];
                p[0] = 0x80;
                p[1] = 0x02;
                p[16..20].copy_from_slice(&ack.to_be_bytes());
                sh.uplink_pkt(ai, &p);
                model.inbound(ai, now);
                model.cum_ack(ack);
            }
            Op::Nak(a, picks) => {
                let ai = idx(*a, n);
                let all: Vec<u32> = model.all_held();
                let list: Vec<u32> = picks.iter().map(|p| if all.is_empty() || *p % 5 == 0 { 0x7000_0000 + *p as u32 } else { all[idx(*p, all.len())] }).collect();
                let mut p = vec![0x80, 0x03, 0, 0];
                for s in &list {
                    p.extend_from_slice(&s.to_be_bytes());
                }
                sh.uplink_pkt(ai, &p);
                model.inbound(ai, now);
                for s in &list {
                    let owner = owners.owner(*s, now).map(|c| c as usize);
                    model.nak(*s, owner);
                }
            }
            Op::Client(kind, burst, back) => {
                for _ in 0..*burst {
                    counter += 1;
                    let seq = match kind {
                        0 => {
                            next_seq += 1;
                            next_seq
                        }
                        1 => next_seq.saturating_sub(*back as u32).max(100),
                        _ => 0,
                    };
                    let pkt = client_pkt(*kind, seq, counter);
                    let critical = sh.st.critical.is_critical_now(now);
                    let expect = model.select(now);
                    if model.distinct_scores(now) >= 2 {
                        multi_score_decisions += 1;
                    }
                    if model.is_tie(now) {
                        obs.class("tie-decision");
                    }
                    sh.client_pkt(&pkt);
                    decisions += 1;
                    let wire = sh.drain_wire();
                    let mut holders: Vec<usize> = Vec::new();
                    for (i, c) in sh.st.conns.iter().enumerate() {
                        let a = sh.addr_of(i);
                        if c.batch_sender.verif_queue_snapshot().iter().any(|(d, _)| d == &pkt) || wire.iter().any(|e| e.addr == a && e.bytes == pkt) {
                            holders.push(i);
                        }
                    }
                    let got = match holders.as_slice() {
                        [] => None,
                        [x] => Some(*x),
                        _ => return crate::rt::viol("duplicate-in-classic", format!("op {oi}: datagram copied to links {:?} with the guard off", holders)),
                    };
                    if *kind == 1 {
                        obs.class("retransmit-flagged");
                    }
                    if critical {
                        obs.class("critical-window-open");
                    }
                    if got != expect {
                        let override_path = *kind != 2 && (critical || *kind == 1);
                        let v = crate::rt::Violation {
                            sig: if override_path { "classic-override".into() } else { "classic-choice".into() },
                            msg: format!(
                                "op {oi}: {} datagram went to link {:?}, reference algorithm chooses {:?} (scores {:?})",
                                if *kind == 1 { "retransmit-flagged" } else if critical { "critical-window" } else if *kind == 2 { "control" } else { "data" },
                                got,
                                expect,
                                model.scores(now)
                            ),
                        };
                        let mut o2 = Obs::default();
                        ctx.filter_known(Err(v), &mut o2)?;
                        obs.known_hits.append(&mut o2.known_hits);
                    }
                    // the model follows where the packet actually went (only differs on a tolerated known finding)
                    if let Some(g) = got {
                        model.route(g, if *kind == 2 { None } else { Some(seq) });
                        if *kind != 2 {
                            owners.route(seq, g as u64, now, oi);
                        }
                        if sh.st.conns[g].batch_sender.queued_count() == 0 {
                            model.flush(g);
                            obs.class("threshold-flush");
                        }
                    }
                }
            }
        }
        let _ = sh.drain_wire();
        let _ = sh.drain_client();
        // lock-step comparison
        for i in 0..n {
            let c = &sh.st.conns[i];
            let m = &model.links[i];
            if c.window != m.window {
                return crate::rt::viol(
                    if matches!(op, Op::Housekeeping) { "classic-tick-moved-window" } else { "classic-window" },
                    format!("op {oi} {:?}: link {i} window {} != reference {}", op, c.window, m.window),
                );
            }
            vensure!(c.in_flight_packets as usize == m.held.len(), "classic-in-flight", "op {oi} {:?}: link {i} in-flight {} != reference {}", op, c.in_flight_packets, m.held.len());
            vensure!(c.batch_sender.queued_count() as usize == m.queued.len(), "classic-queue", "op {oi} {:?}: link {i} queued {} != reference {}", op, c.batch_sender.queued_count(), m.queued.len());
        }
        let wsum: i64 = model.links.iter().map(|l| l.window as i64).sum();
        let _ = wsum;
        if model.take_window_changed() {
            window_changes += 1;
        }
    }
    obs.count("decisions", decisions);
    obs.nontrivial = multi_score_decisions > 0 && window_changes > 0;
    if obs.nontrivial {
        obs.sample = Some(json!({"windows": case.windows, "timeout": timeout, "n_ops": case.ops.len(), "decisions": decisions, "first_ops": format!("{:?}", &case.ops[..case.ops.len().min(8)])}));
    }
    Ok(())
}

pub fn run(ctx: &Ctx) -> &'static str {
    ctx.assume("refmodel::classic is an independent re-implementation of the reference rules as worded in the property (first maximum of window/(in-flight+queued+1) over usable links; +29 on an earned SRTLA ACK iff in-flight x 1000 > window after removal; +1 on every connected link per SRTLA-acked number; -100 per charged NAK; bounds 1000..60000; no tick changes)");
    ctx.assume("the initial window vector is written to the window field directly, as the statement quantifies over any starting vector");
    ctx.assume("when an SRTLA ACK names a seq held by several links the reference picks the arrival link, then the first other holder in link order; NAKs are charged to the remembered carrier (C05 model) else the first holder; batch flush timing is read from the real queue depth");
    for (file, body) in ctx.replay_files() {
        if !ctx.replay_case::<Case, _>("closed-loop", &file, &body, |c, o| check(c, o, ctx)) {
            eprintln!("replay {}: unknown part", file.display());
        }
    }
    if ctx.replay.is_some() {
        return "exploration";
    }
    let mo = ctx.tier.pick(80, 200);
    ctx.explore(
        "closed-loop",
        "closed-loop classic-mode histories on the real shell (1..4 links, guard off, any starting window vector): client datagrams of every kind incl. retransmit-flagged and inside a critical window, flushes, real SRTLA ACK / SRT ACK / NAK packets, housekeeping ticks, timeouts and REG3; chosen link (from queue/wire diff), windows, in-flight and queue depth compared with the reference after every op; non-trivial = >=1 decision with >=2 usable links of different score and >=1 window change",
        ctx.tier.pick(30_000, 300_000),
        || strategy(mo),
        |_| |c: &Case, o: &mut Obs| check(c, o, ctx),
    );
    crate::props::cli::run(ctx);
    // "no time-based recovery" as the real loop hands the mode to housekeeping, across run-time mode switches
    crate::props::e2e::run(ctx, crate::props::e2e::Phase::ModeTicks, ctx.tier.pick(1, 2));
    "exploration"
}

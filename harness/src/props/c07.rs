//! C07 — registration handshake follows the two-phase SRTLA protocol.
//! Tier 1: the real `SrtlaRegistrationManager` driven in the shell's call order,
//! bounded-exhaustive over a handshake alphabet and generated beyond that.
//! Tier 2: the same alphabet through the real `handle_uplink_packet` /
//! `handle_housekeeping`, REG frames observed on the wire.
//! Oracle: an independent protocol monitor.

use proptest::collection::vec;
use proptest::prelude::*;
use serde::{Deserialize, Serialize};
use serde_json::json;
use srtla_core::ConfigSnapshot;
use srtla_core::connection::SrtlaConnection;
use srtla_core::registration::{RegistrationEvent, SrtlaRegistrationManager};

use crate::engine::core::{T0, apply_reg3, new_link};
use crate::engine::shell::Shell;
use crate::refmodel::codec as rc;
use crate::rt::{CheckResult, Ctx, Obs, PartStats, hash_of};

#[derive(Debug, Clone, Copy, Hash, Serialize, Deserialize, PartialEq, Eq)]
pub enum Sym {
    Ngp(u8),
    Reg2Good(u8),
    Reg2Short(u8, u16),
    Reg3(u8),
    RegErr(u8),
    Tick,
    Advance(u16),
}

#[derive(Debug, Clone, Hash, Serialize, Deserialize)]
pub struct Case {
    pub n_links: u8,
    pub syms: Vec<Sym>,
}

const ADV_EXH: &[u16] = &[999, 1000, 3999, 4000, 4001];
const ADV_ALL: &[u16] = &[0, 500, 999, 1000, 1001, 3999, 4000, 4001, 8000];

fn alphabet(n_links: u8, advs: &[u16]) -> Vec<Sym> {
    let mut a = Vec::new();
    for l in 0..n_links {
        a.push(Sym::Ngp(l));
        a.push(Sym::Reg2Good(l));
        a.push(Sym::Reg2Short(l, 257));
        a.push(Sym::Reg3(l));
        a.push(Sym::RegErr(l));
    }
    a.push(Sym::Tick);
    for d in advs {
        a.push(Sym::Advance(*d));
    }
    a
}

/// Independent protocol monitor, fed with emitted and delivered packets only.
pub struct Mon {
    adopted: [u8; 256],
    outstanding: Option<(u8, u64)>,
    broadcast_due: bool,
    ever_connected: bool,
    /// set by a deadline-clearing tick; cleared when a new REG1 goes out
    retry_owed: bool,
    retry_ngp: Option<u8>,
    // classes
    pub accepted: u32,
    pub odd_reply: u32,
    pub deadline_cross: u32,
    pub immediate_while_registered: u32,
    /// which links were connected when the last housekeeping pass counted them
    connected_at_pass: Vec<bool>,
}

impl Mon {
    pub fn new(initial_id: [u8; 256]) -> Mon {
        Mon {
            adopted: initial_id,
            outstanding: None,
            broadcast_due: false,
            ever_connected: false,
            retry_owed: false,
            retry_ngp: None,
            accepted: 0,
            odd_reply: 0,
            deadline_cross: 0,
            immediate_while_registered: 0,
            connected_at_pass: Vec::new(),
        }
    }

    /// A housekeeping pass counted the connected links.
    pub fn note_pass(&mut self, connected: Vec<bool>) {
        self.connected_at_pass = connected;
    }

    /// A REG1 frame left on `link`. `at_tick`: emitted by a housekeeping pass;
    /// `any_connected`: some uplink is connected right now.
    pub fn on_reg1(&mut self, link: u8, bytes: &[u8], now: u64, at_tick: bool, connected_now: &[bool], step: usize) -> CheckResult {
        let any_connected = connected_now.iter().any(|c| *c);
        vensure!(bytes.len() == 258 && rc::packet_type(bytes) == Some(rc::T_REG1), "reg1-frame", "step {step}: malformed REG1 of {} bytes", bytes.len());
        vensure!(bytes[2..] == self.adopted[..], "reg1-stale-id", "step {step}: REG1 on link {link} does not carry the currently adopted id");
        if let Some((l, at)) = self.outstanding
            && l != link
        {
            return crate::rt::viol("reg1-on-two-links", format!("step {step}: REG1 on link {link} while the REG1 sent on link {l} at +{} ms is still outstanding", now - at));
        }
        if at_tick && any_connected && self.outstanding.is_none_or(|o| o.0 != link) {
            return crate::rt::viol("driver-reg1-while-registered", format!("step {step}: the registration driver emitted REG1 on link {link} while an uplink is connected"));
        }
        if !at_tick && any_connected {
            // immediate answer to REG_NGP, decided on the driver's link count from its last pass. A link that came up
            // since that pass is not in the count yet: counted, not asserted. A link that was connected at that pass
            // and still is was counted: then the REG1 is the driver emitting REG1 while an uplink is registered.
            if let Some(i) = (0..connected_now.len()).find(|i| connected_now[*i] && self.connected_at_pass.get(*i).copied().unwrap_or(false)) {
                return crate::rt::viol("immediate-reg1-while-registered", format!("step {step}: REG_NGP on link {link} was answered with a REG1 although link {i} has been connected since before the last housekeeping pass"));
            }
            self.immediate_while_registered += 1;
        }
        self.outstanding = Some((link, now));
        self.retry_owed = false;
        self.retry_ngp = None;
        Ok(())
    }

    /// A registration REG2 (not a start-up probe) left on `link`.
    pub fn on_reg2_out(&mut self, link: u8, bytes: &[u8], step: usize) -> CheckResult {
        vensure!(bytes.len() == 258 && rc::packet_type(bytes) == Some(rc::T_REG2), "reg2-frame", "step {step}: malformed REG2 of {} bytes", bytes.len());
        vensure!(bytes[2..] == self.adopted[..], "reg2-stale-id", "step {step}: REG2 on link {link} does not carry the currently adopted id");
        Ok(())
    }

    /// A REG2 was delivered on `link`; `id_after` is the manager's id after the op.
    pub fn on_reg2_in(&mut self, link: u8, bytes: &[u8], id_after: &[u8; 256], step: usize) -> CheckResult {
        let changed = id_after != &self.adopted;
        let full = bytes.len() >= 258;
        let from_pending = self.outstanding.is_some_and(|o| o.0 == link);
        if changed {
            vensure!(full, "short-reg2-accepted", "step {step}: adopted id changed on a {}-byte REG2", bytes.len());
            vensure!(from_pending, "reg2-from-wrong-link", "step {step}: adopted id changed on a REG2 from link {link}, outstanding REG1 is {:?}", self.outstanding.map(|o| o.0));
            vensure!(id_after[..] == bytes[2..258], "adopted-id-wrong", "step {step}: adopted id is not bytes 2..258 of the REG2");
        }
        if full && from_pending {
            // acceptance (even if the id happens to be identical)
            vensure!(id_after[..] == bytes[2..258], "reg2-not-adopted", "step {step}: full-length REG2 from the pending link was not adopted");
            self.adopted = *id_after;
            self.outstanding = None;
            self.broadcast_due = true;
            self.accepted += 1;
        } else {
            self.odd_reply += 1;
        }
        Ok(())
    }

    pub fn on_reg_err(&mut self, pending_after: Option<usize>, step: usize) -> CheckResult {
        vensure!(pending_after.is_none(), "reg-err-left-pending", "step {step}: a handshake is still pending after REG_ERR");
        self.outstanding = None;
        self.retry_owed = false;
        self.retry_ngp = None;
        Ok(())
    }

    pub fn broadcast_expected(&self) -> bool {
        self.broadcast_due
    }

    pub fn on_ngp(&mut self, link: u8) {
        if self.retry_owed && self.retry_ngp.is_none() && !self.ever_connected {
            self.retry_ngp = Some(link);
        }
        if self.outstanding.is_some() {
            self.odd_reply += 1;
        }
    }

    pub fn on_reg3(&mut self) {
        self.ever_connected = true;
    }

    /// Start of a housekeeping pass.
    pub fn on_tick(&mut self, now: u64) -> bool {
        if let Some((_, at)) = self.outstanding
            && now >= at + 4000
        {
            self.outstanding = None;
            self.deadline_cross += 1;
            self.retry_owed = true;
            self.retry_ngp = None;
            return true;
        }
        false
    }

    /// End of a housekeeping pass. `broadcast`: a REG2 round went to all links.
    pub fn on_tick_end(&mut self, cleared: bool, pending_after: Option<usize>, broadcast: bool, reg1_emitted: bool, step: usize) -> CheckResult {
        if cleared && !reg1_emitted {
            vensure!(pending_after.is_none(), "reg1-not-abandoned", "step {step}: unanswered REG1 still pending after a tick at/after its 4 s deadline");
        }
        if broadcast {
            vensure!(self.broadcast_due, "second-broadcast", "step {step}: REG2 broadcast without a newly accepted REG2");
            self.broadcast_due = false;
        } else {
            vensure!(!self.broadcast_due, "broadcast-missing", "step {step}: no REG2 broadcast on the tick after an accepted REG2");
        }
        // a retry owed after abandonment: NGP seen, a tick has passed, REG1 must have gone out by now
        if let Some(l) = self.retry_ngp
            && !cleared
        {
            return crate::rt::viol("no-new-attempt-after-timeout", format!("step {step}: REG_NGP on link {l} after an abandoned REG1 produced no new REG1 by the end of the next tick"));
        }
        Ok(())
    }

    pub fn check_id(&self, id_now: &[u8; 256], step: usize) -> CheckResult {
        vensure!(id_now == &self.adopted, "id-changed-silently", "step {step}: adopted id changed outside a REG2 acceptance");
        Ok(())
    }
}

fn reg2_good(k: u32) -> Vec<u8> {
    let mut b = vec![0u8; 258];
    b[0] = 0x92;
    b[1] = 0x01;
    for i in 0..256 {
        b[2 + i] = (k as u8).wrapping_mul(31).wrapping_add(i as u8).wrapping_add((k >> 8) as u8);
    }
    b
}

// ---------------------------------------------------------------- tier 1 (pure)

pub fn check_pure(case: &Case, obs: &mut Obs) -> CheckResult {
    let n = case.n_links as usize;
    let mut now = T0;
    let mut reg = SrtlaRegistrationManager::new();
    let mut conns: Vec<SrtlaConnection> = (0..n).map(|i| new_link(i, now)).collect();
    let mut mon = Mon::new(*reg.srtla_id());
    let mut k = 0u32;
    for (step, s) in case.syms.iter().enumerate() {
        let _ = &conns;
        match *s {
            Sym::Advance(d) => now += d as u64,
            Sym::Tick => {
                let cleared = mon.on_tick(now);
                let _ = reg.clear_pending_if_timed_out(now);
                reg.update_active_connections(&conns);
                let sends = reg.reg_driver_pending_sends(n, now);
                let mut emitted = false;
                if let Some((idx, pkt)) = sends.reg1 {
                    mon.on_reg1(idx as u8, &pkt, now, true, &conns.iter().map(|c| c.connected).collect::<Vec<_>>(), step)?;
                    emitted = true;
                }
                if let Some(pkt) = sends.broadcast_reg2 {
                    for l in 0..n {
                        mon.on_reg2_out(l as u8, &pkt, step)?;
                    }
                }
                mon.note_pass(conns.iter().map(|c| c.connected).collect());
                mon.on_tick_end(cleared, reg.pending_reg2_idx(), sends.broadcast_reg2.is_some(), emitted, step)?;
            }
            Sym::Ngp(l) | Sym::Reg2Good(l) | Sym::Reg2Short(l, _) | Sym::Reg3(l) | Sym::RegErr(l) => {
                if l as usize >= n {
                    continue;
                }
                let bytes: Vec<u8> = match *s {
                    Sym::Ngp(_) => vec![0x92, 0x11],
                    Sym::Reg2Good(_) => {
                        k += 1;
                        reg2_good(k)
                    }
                    Sym::Reg2Short(_, len) => {
                        k += 1;
                        let mut b = reg2_good(k);
                        b.truncate((len as usize).clamp(2, 257));
                        b
                    }
                    Sym::Reg3(_) => vec![0x92, 0x02],
                    _ => vec![0x92, 0x10],
                };
                let ev = reg.process_registration_packet(l as usize, &bytes, now);
                match ev {
                    Some(RegistrationEvent::RegNgp) => {
                        mon.on_ngp(l);
                        if let Some(pkt) = reg.reg1_if_ngp_immediate(l as usize, now) {
                            mon.on_reg1(l, &pkt, now, false, &conns.iter().map(|c| c.connected).collect::<Vec<_>>(), step)?;
                        }
                    }
                    Some(RegistrationEvent::Reg2) => mon.on_reg2_in(l, &bytes, reg.srtla_id(), step)?,
                    Some(RegistrationEvent::Reg3) => {
                        apply_reg3(&mut conns[l as usize], now);
                        mon.on_reg3();
                    }
                    Some(RegistrationEvent::RegErr) => {
                        conns[l as usize].mark_for_recovery();
                        mon.on_reg_err(reg.pending_reg2_idx(), step)?;
                    }
                    None => return crate::rt::viol("handshake-packet-ignored", format!("step {step}: {:?} not recognised as a registration packet", s)),
                }
            }
        }
        mon.check_id(reg.srtla_id(), step)?;
    }
    finish(obs, &mon);
    Ok(())
}

fn finish(obs: &mut Obs, mon: &Mon) {
    if mon.accepted > 0 {
        obs.class("reg2-accepted");
    }
    if mon.odd_reply > 0 {
        obs.class("late-duplicate-or-wrong-link-reply");
    }
    if mon.deadline_cross > 0 {
        obs.class("deadline-crossed-with-pending-reg1");
    }
    if mon.immediate_while_registered > 0 {
        obs.class("immediate-reg1-while-a-link-is-registered(counted-only)");
    }
    obs.nontrivial = mon.accepted > 0 || mon.odd_reply > 0 || mon.deadline_cross > 0;
}

fn sym_strategy(n: u8) -> impl Strategy<Value = Sym> {
    prop_oneof![
        4 => (0..n).prop_map(Sym::Ngp),
        3 => (0..n).prop_map(Sym::Reg2Good),
        1 => (0..n, prop_oneof![Just(2u16), Just(3), Just(129), Just(256), Just(257), 2u16..258]).prop_map(|(l, k)| Sym::Reg2Short(l, k)),
        2 => (0..n).prop_map(Sym::Reg3),
        1 => (0..n).prop_map(Sym::RegErr),
        6 => Just(Sym::Tick),
        5 => proptest::sample::select(ADV_ALL.to_vec()).prop_map(Sym::Advance),
    ]
}

fn pure_strategy(max: usize) -> impl Strategy<Value = Case> {
    (2u8..=3).prop_flat_map(move |n| vec(sym_strategy(n), 1..max).prop_map(move |syms| Case { n_links: n, syms }))
}

/// Bounded-exhaustive enumeration of all sequences up to `depth` over the alphabet.
fn enumerate_pure(ctx: &Ctx, n_links: u8, depth: usize, label: &str) {
    if ctx.failed() {
        return;
    }
    let alpha = alphabet(n_links, ADV_EXH);
    let rule = format!(
        "every sequence of length 1..={depth} over the {}-symbol alphabet (REG_NGP, REG2 full / 257-byte, REG3, REG_ERR on each of {n_links} links; tick; advance {:?} ms) on the real SrtlaRegistrationManager in the shell's call order; non-trivial = contains an accepted REG2, a late/duplicate/wrong-link reply or a deadline crossing with a pending REG1",
        alpha.len(),
        ADV_EXH
    );
    let a = alpha.len();
    let workers = ctx.workers.max(1);
    let results: Vec<(PartStats, Option<(crate::rt::Violation, Case)>)> = std::thread::scope(|sc| {
        let mut hs = Vec::new();
        for w in 0..workers {
            let alpha = &alpha;
            let rule = &rule;
            hs.push(sc.spawn(move || {
                let mut st = PartStats::new(label, rule);
                st.exhaustive = true;
                let mut fail = None;
                // each worker takes the first-symbol classes w, w+workers, ...
                for len in 1..=depth {
                    let total: u64 = (a as u64).pow(len as u32);
                    let mut i = w as u64;
                    while i < total {
                        let mut syms = Vec::with_capacity(len);
                        let mut x = i;
                        for _ in 0..len {
                            syms.push(alpha[(x % a as u64) as usize]);
                            x /= a as u64;
                        }
                        let case = Case { n_links, syms };
                        let mut obs = Obs::default();
                        let r = std::panic::catch_unwind(std::panic::AssertUnwindSafe(|| check_pure(&case, &mut obs)));
                        let r = match r {
                            Ok(r) => r,
                            Err(p) => Err(crate::rt::Violation { sig: "panic".into(), msg: crate::rt::panic_text(&p) }),
                        };
                        let nontrivial = obs.nontrivial;
                        st.evaluations += 1;
                        for c in &obs.classes {
                            *st.classes.entry(c.clone()).or_default() += 1;
                        }
                        if nontrivial {
                            st.nontrivial_total += 1;
                            if st.nontrivial_hashes.len() < 3_000_000 {
                                st.nontrivial_hashes.insert(hash_of(&case));
                            }
                            if st.samples.len() < 2 && len == depth {
                                st.samples.push(json!(format!("{:?}", case.syms)));
                            }
                        }
                        if let Err(v) = r {
                            fail = Some((v, case));
                            return (st, fail);
                        }
                        i += workers as u64;
                    }
                }
                (st, fail)
            }));
        }
        hs.into_iter().map(|h| h.join().unwrap()).collect()
    });
    let mut merged = PartStats::new(label, &rule);
    merged.exhaustive = true;
    let mut first = None;
    for (st, f) in results {
        merged.merge(st);
        if first.is_none() {
            first = f;
        }
    }
    merged.exhaustive = true;
    ctx.add_part(merged);
    if let Some((v, case)) = first {
        if ctx.is_known(&v.sig).is_some() {
            ctx.print_known(&v.sig);
        } else {
            ctx.report_violation("pure-generated", &v, serde_json::to_value(&case).unwrap());
        }
    }
}

// --------------------------------------------------------------- tier 2 (shell)

pub fn check_shell(case: &Case, obs: &mut Obs) -> CheckResult {
    let n = case.n_links as usize;
    let addrs: Vec<u8> = (0..n as u8).collect();
    let mut sh = Shell::new(&addrs, ConfigSnapshot::default());
    let mut mon = Mon::new(*sh.st.reg.srtla_id());
    // start-up exactly as run_sender_with_config: probes, then an initial housekeeping pass
    sh.start_probing();
    let probes = sh.drain_wire();
    for e in &probes {
        vensure!(rc::packet_type(&e.bytes) == Some(rc::T_REG2) && e.bytes.len() == 258, "probe-frame", "start-up probe is not a 258-byte REG2");
    }
    let mut k = 0u32;
    let mut syms: Vec<Sym> = vec![Sym::Tick];
    syms.extend(case.syms.iter().copied());
    // in a third of the cases one link's socket stops accepting sends right before the pass that broadcasts the
    // adopted id (a send error on that link): the round must still reach every other link. The link is a function
    // of the case, and the history ends with that pass (the wire monitor cannot see what a dead socket swallows).
    let break_link: Option<usize> = if case.syms.len() % 3 == 0 { Some((case.syms.len() / 3) % n) } else { None };
    let mut broke: Option<usize> = None;
    for (step, s) in syms.iter().enumerate() {
        if broke.is_some() {
            break;
        }
        let conn_before: Vec<bool> = sh.st.conns.iter().map(|c| c.connected).collect();
        let mut delivered_reg3: Option<usize> = None;
        match *s {
            Sym::Advance(d) => sh.advance(d as u64),
            Sym::Tick => {
                let now = sh.now();
                let timed_out: Vec<bool> = sh.st.conns.iter().map(|c| c.is_timed_out(now)).collect();
                let cleared = mon.on_tick(now);
                if let Some(b) = break_link
                    && mon.broadcast_expected()
                    && sh.break_socket(b)
                {
                    broke = Some(b);
                    obs.class(if b + 1 < n { "broadcast-round-with-a-failing-send-ahead-of-other-links" } else { "broadcast-round-with-a-failing-send-on-the-last-link" });
                }
                sh.housekeeping_core();
                let wire = sh.drain_wire();
                // (as before: the connectivity after the pass, which is what the driver counted in it)
                let connected_before_pass: Vec<bool> = sh.st.conns.iter().map(|c| c.connected).collect();
                let mut reg1_emitted = false;
                let mut reg2_links: Vec<u8> = Vec::new();
                for e in &wire {
                    match rc::packet_type(&e.bytes) {
                        Some(rc::T_REG1) => {
                            mon.on_reg1(e.addr, &e.bytes, now, true, &connected_before_pass, step)?;
                            reg1_emitted = true;
                        }
                        Some(rc::T_REG2) => {
                            mon.on_reg2_out(e.addr, &e.bytes, step)?;
                            reg2_links.push(e.addr);
                        }
                        _ => {}
                    }
                }
                // a broadcast round reaches every link; any other REG2 must be the reconnect path's re-send
                // on a link that was timed out before this pass
                let count = |l: u8| reg2_links.iter().filter(|x| **x == l).count();
                let broadcast = mon.broadcast_expected();
                for l in 0..n as u8 {
                    let cnt = count(l);
                    let reconnect_max = timed_out[l as usize] as usize;
                    if broadcast {
                        if broke == Some(l as usize) {
                            continue; // its socket refuses sends: nothing of it can be on the wire
                        }
                        vensure!(cnt >= 1, "broadcast-incomplete", "step {step}: REG2 broadcast did not reach link {l}{}", if broke.is_some() { format!(" (the send on link {} failed in this round)", broke.unwrap()) } else { String::new() });
                        vensure!(cnt <= 1 + reconnect_max, "second-broadcast", "step {step}: link {l} got {cnt} REG2 frames in one pass");
                    } else {
                        vensure!(cnt <= reconnect_max, "second-broadcast", "step {step}: link {l} got {cnt} REG2 frame(s) in a pass with no newly accepted REG2 (timed out before the pass: {})", timed_out[l as usize]);
                    }
                }
                mon.note_pass(sh.st.conns.iter().map(|c| c.connected).collect());
                mon.on_tick_end(cleared, sh.st.reg.pending_reg2_idx(), broadcast, reg1_emitted, step)?;
            }
            Sym::Ngp(l) | Sym::Reg2Good(l) | Sym::Reg2Short(l, _) | Sym::Reg3(l) | Sym::RegErr(l) => {
                if l as usize >= n {
                    continue;
                }
                let now = sh.now();
                let connected_before: Vec<bool> = sh.st.conns.iter().map(|c| c.connected).collect();
                let bytes: Vec<u8> = match *s {
                    Sym::Ngp(_) => vec![0x92, 0x11],
                    Sym::Reg2Good(_) => {
                        k += 1;
                        reg2_good(k)
                    }
                    Sym::Reg2Short(_, len) => {
                        k += 1;
                        let mut b = reg2_good(k);
                        b.truncate((len as usize).clamp(2, 257));
                        b
                    }
                    Sym::Reg3(_) => {
                        delivered_reg3 = Some(l as usize);
                        vec![0x92, 0x02]
                    }
                    _ => vec![0x92, 0x10],
                };
                if matches!(*s, Sym::Ngp(_)) {
                    mon.on_ngp(l);
                }
                sh.uplink_pkt(l as usize, &bytes);
                let wire = sh.drain_wire();
                for e in &wire {
                    match rc::packet_type(&e.bytes) {
                        Some(rc::T_REG1) => {
                            vensure!(matches!(*s, Sym::Ngp(_)) && e.addr == l, "reg1-unprovoked", "step {step}: REG1 on link {} in response to {:?}", e.addr, s);
                            mon.on_reg1(e.addr, &e.bytes, now, false, &connected_before, step)?;
                        }
                        Some(rc::T_REG2) => return crate::rt::viol("reg2-unprovoked", format!("step {step}: REG2 emitted outside a housekeeping pass in response to {:?}", s)),
                        _ => {}
                    }
                }
                match *s {
                    Sym::Reg2Good(_) | Sym::Reg2Short(..) => mon.on_reg2_in(l, &bytes, sh.st.reg.srtla_id(), step)?,
                    Sym::RegErr(_) => mon.on_reg_err(sh.st.reg.pending_reg2_idx(), step)?,
                    Sym::Reg3(_) => mon.on_reg3(),
                    _ => {}
                }
            }
        }
        // (v) connected flips false->true only on a REG3 delivered on that very link
        for (i, c) in sh.st.conns.iter().enumerate() {
            if !conn_before[i] && c.connected {
                vensure!(delivered_reg3 == Some(i), "connected-without-reg3", "step {step}: link {i} became connected in {:?}", s);
            }
        }
        mon.check_id(sh.st.reg.srtla_id(), step)?;
        let _ = sh.drain_client();
    }
    finish(obs, &mon);
    if obs.nontrivial {
        obs.sample = Some(json!({"links": n, "syms": format!("{:?}", &case.syms[..case.syms.len().min(16)])}));
    }
    Ok(())
}

pub fn run(ctx: &Ctx) -> &'static str {
    ctx.assume("a REG1 is outstanding from its emission until a full-length REG2 from its link is accepted, a REG_ERR arrives, or a housekeeping pass runs at/after emission + 4000 ms; re-sending REG1 on the same link is allowed");
    ctx.assume("'the registration driver emits REG1 only while no uplink is registered' is asserted for REG1s emitted by a housekeeping pass; the immediate answer to REG_NGP uses the driver's count from its last pass, such REG1s sent while a link is already connected are counted in the evidence, not flagged");
    ctx.assume("tier 1 drives the manager in the shell's call order (copied); tier 2 drives the real handle_uplink_packet / handle_housekeeping and reads REG frames off the wire; in tier 2 a REG2 to a link that was timed out before the pass is attributed to the reconnect path, not to a broadcast");
    for (file, body) in ctx.replay_files() {
        let done = ctx.replay_case::<Case, _>("pure-generated", &file, &body, check_pure) || ctx.replay_case::<Case, _>("shell", &file, &body, check_shell);
        if !done {
            eprintln!("replay {}: unknown part", file.display());
        }
    }
    if ctx.replay.is_some() {
        return "exploration";
    }
    enumerate_pure(ctx, 2, ctx.tier.pick(5, 6), "pure-exhaustive-2-links");
    if ctx.tier == crate::rt::Tier::Thorough {
        enumerate_pure(ctx, 3, 5, "pure-exhaustive-3-links");
    }
    ctx.explore(
        "pure-generated",
        "generated handshake sequences to depth 60 on 2..3 links (REG2 short lengths 2..257, all clock steps) on the real manager; same monitor",
        ctx.tier.pick(200_000, 2_000_000),
        || pure_strategy(60),
        |_| check_pure,
    );
    ctx.explore(
        "shell",
        "the same alphabet through the real handle_uplink_packet / handle_housekeeping on a real shell incl. start-up probing and the reconnect re-send path; REG frames read off the wire; connected flips only on REG3 on that link",
        ctx.tier.pick(30_000, 400_000),
        || pure_strategy(50),
        |_| check_shell,
    );
    // the real loop: start-up with lost REG1 frames, then the receiver forgets the group
    crate::props::e2e::run(ctx, crate::props::e2e::Phase::Handshake, ctx.tier.pick(1, 3));
    "exploration"
}

//! C12 — the stall guard is a routing penalty only; off means baseline.
//! (A) projection of every link's liveness/accounting state is equal before
//! and after every select; (B) with the guard off all flags are cleared and the
//! decision equals that of a twin link set that never had the guard on.

use serde_json::json;
use srtla_core::connection::SrtlaConnection;
use srtla_core::selection::select_connection_idx;

use crate::engine::selstate::{SelCase, SelOp, World, strategy};
use crate::rt::{CheckResult, Ctx, Obs};

/// Everything a routing decision must leave untouched.
pub fn projection(c: &SrtlaConnection) -> String {
    let mut log: Vec<(i32, u64)> = c.packet_log.iter().map(|(k, v)| (*k, *v)).collect();
    log.sort();
    format!(
        "id={} conn={} lr={:?} ls={:?} lk={:?} w={} inf={} log={:?} hi={} cong={:?} phase={:?} rec={:?} rtt={:?} br={:?} q={:?} proof={} weak={} ccb={} cct={} ld={}",
        c.conn_id,
        c.connected,
        c.last_received,
        c.last_sent,
        c.last_keepalive_sent,
        c.window,
        c.in_flight_packets,
        log,
        c.highest_acked_seq,
        c.congestion,
        c.phase,
        c.reconnection,
        c.rtt,
        c.bitrate,
        c.batch_sender.verif_queue_snapshot().len(),
        c.last_ack_or_rtt_sample_ms,
        c.weak,
        c.cc_backing_off,
        c.cc_target_bps,
        c.loss_degraded
    )
}

pub fn check(case: &SelCase, obs: &mut Obs) -> CheckResult {
    let mut w = World::new(case);
    // the twin: same spec, same history, guard always off
    let mut twin_case = case.clone();
    twin_case.guard = false;
    let mut twin = World::new(&twin_case);
    let mut had_stall_history = false;
    let mut compared = 0u32;
    let mut compared_with_history = 0u32;
    for op in &case.ops {
        w.step += 1;
        if let SelOp::Select(s) = op {
            let last = w.last_for(*s);
            let before: Vec<String> = w.links.iter().map(projection).collect();
            let res = select_connection_idx(&mut w.links, last, w.now, &w.cfg);
            for (i, c) in w.links.iter().enumerate() {
                let after = projection(c);
                vensure!(after == before[i], "select-mutated-state", "step {}: select changed link {} state:\n before {}\n after  {}", w.step, i, before[i], after);
            }
            if w.links.iter().any(|c| c.stall_latched() || c.verif_guard_state().2) {
                had_stall_history = true;
            }
            // twin runs the same select with the same previous index, guard off
            let mut tcfg = w.cfg;
            tcfg.stall_deselect = false;
            twin.cfg = tcfg;
            let tres = select_connection_idx(&mut twin.links, last, twin.now, &twin.cfg);
            if !w.cfg.stall_deselect {
                for (i, c) in w.links.iter().enumerate() {
                    let (latched_since, recovery_since, pulled, _) = c.verif_guard_state();
                    vensure!(
                        !c.is_stall_gated() && !c.stall_latched() && latched_since == 0 && recovery_since == 0 && !pulled,
                        "guard-off-not-cleared",
                        "step {}: guard off but link {} gated={} latched_since={} recovery_since={} pulled={}",
                        w.step,
                        i,
                        c.is_stall_gated(),
                        latched_since,
                        recovery_since,
                        pulled
                    );
                }
                // quality caches agree when both sets recompute at this instant or do not use them
                let gap_ok = w.prev_select_at.is_none_or(|p| w.now - p >= 50) || !w.cfg.effective_quality_enabled();
                if gap_ok {
                    compared += 1;
                    if had_stall_history {
                        compared_with_history += 1;
                    }
                    vensure!(res == tres, "guard-off-differs-from-baseline", "step {}: guard off decision {:?} != baseline twin {:?} (last {:?})", w.step, res, tres, last);
                }
            }
            if let Some(r) = res {
                w.last_sel = Some(r);
            }
            w.prev_select_at = Some(w.now);
            twin.prev_select_at = Some(twin.now);
        } else {
            w.apply(op);
            twin.apply(op);
            twin.cfg.stall_deselect = false;
        }
    }
    obs.count("guard-off-decisions-compared", compared as u64);
    if had_stall_history {
        obs.class("latched-or-pulled-in-history");
    }
    if compared_with_history > 0 {
        obs.class("guard-off-compare-after-stall-history");
    }
    obs.nontrivial = had_stall_history;
    if obs.nontrivial {
        obs.sample = Some(json!({"links": case.n_links, "classic": case.classic, "n_ops": case.ops.len(), "compared": compared, "first_ops": format!("{:?}", &case.ops[..case.ops.len().min(10)])}));
    }
    Ok(())
}

pub fn run(ctx: &Ctx) -> &'static str {
    ctx.assume("projection = connected, receive/send/keepalive stamps, window, in-flight, packet log, highest-acked, congestion/reconnection/RTT/bitrate structs, phase, queue depth, proof stamp, weak/CC flags; only guard-private fields, conn_timeout_ms and the quality cache may move");
    ctx.assume("guard-off decisions are compared with the twin only when the select is >= 50 ms after the previous one (both sets recompute their quality cache) or quality scoring is not in effect; the twin receives the same previous index");
    for (file, body) in ctx.replay_files() {
        if !ctx.replay_case::<SelCase, _>("histories", &file, &body, check)
            && !ctx.replay_case::<crate::props::decide::Case, _>("glue", &file, &body, |c, o| crate::props::decide::check(c, o, crate::props::decide::Which::C12, ctx))
        {
            eprintln!("replay {}: unknown part", file.display());
        }
    }
    if ctx.replay.is_some() {
        return "exploration";
    }
    let mo = ctx.tier.pick(70, 140);
    ctx.explore(
        "histories",
        "histories of selects, state changes and guard on/off toggles over 1..4 real connections, every threshold setting, both modes, with a guard-always-off twin; non-trivial = the history latched or pulled >= 1 link before a compared select",
        ctx.tier.pick(60_000, 800_000),
        || strategy(mo, None),
        |_| check,
    );
    let mo2 = ctx.tier.pick(50, 100);
    ctx.explore(
        "glue",
        "the decision engine of C03/C04 (real handle_srt_packet on a real shell, guard switched on and off at run time): after every client datagram routed with the guard off - data, retransmit-flagged, control, critical window open or closed - no link keeps a stall flag, latch, recovery run or silence pull; non-trivial = a must-land (retransmit / critical-window) or control datagram routed with the guard off",
        ctx.tier.pick(30_000, 300_000),
        || crate::props::decide::strategy(mo2),
        |_| |c: &crate::props::decide::Case, o: &mut Obs| crate::props::decide::check(c, o, crate::props::decide::Which::C12, ctx),
    );
    // the flags as the real binary hands them to the loop ("off" must arrive as off)
    crate::props::cli::run(ctx);
    "exploration"
}

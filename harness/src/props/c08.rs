//! C08 — failed uplinks are detected, retried forever, and rejoin cleanly.
use crate::props::faultsim::{self, Which};
use crate::rt::{Ctx, Obs};

pub fn run(ctx: &Ctx) -> &'static str {
    ctx.assume("cooperative receiver model written from the protocol docs: REG1 -> REG2(id = sender half + receiver half), REG2(known id) -> REG3, REG2(unknown) -> REG_NGP (or REG_ERR), keepalive echo for members, SRTLA ACK every 10 data packets per link, cumulative SRT ACK every 200 ms; per-link round-trip delay");
    ctx.assume("'heard nothing' = no non-registration datagram (or REG3) delivered to the link for its current timeout (the value the link itself holds); a REG_ERR delivered on the link and an injected socket send failure are accepted teardown causes");
    ctx.assume("'forever' and 'within 30 s' are checked as bounded safety over the simulated horizon: while down, the gap between attempts never exceeds 120 s + a housekeeping period; recovery is required once no fault is scheduled for the link any more and the receiver holds the id the sender adopted");
    ctx.assume("link 0 has no fault except in the total-outage runs (every uplink black-holed over the same period); when every uplink has been down for > 10 s handle_housekeeping reports an error, the real loop logs it and goes on, and so does the simulation");
    ctx.assume("a receiver without the group answers REG_NGP: the sender must then create a new group within timeout + 30 s; a receiver that refuses with REG_ERR can only be retried (a new group is started on REG_NGP only, as in the reference implementation), no recovery is demanded while it refuses");
    for (file, body) in ctx.replay_files() {
        if !ctx.replay_case::<faultsim::Case, _>("fault-schedules", &file, &body, |c, o| faultsim::check(c, o, Which::C08, ctx)) {
            eprintln!("replay {}: unknown part", file.display());
        }
    }
    if ctx.replay.is_some() {
        return "fault_enumeration";
    }
    let horizon = ctx.tier.pick(70, 400);
    ctx.explore(
        "fault-schedules",
        "generated per-link fault schedules (black-hole both ways, uplink-only loss, reply-only loss, lost handshake replies, receiver forgot the group -> REG_NGP / REG_ERR, socket send errors) on 2..4 links against the cooperative receiver, every timeout setting, both modes, 1 Hz housekeeping with jitter, bursty client traffic with 15 ms flush ticks; monitors: no early teardown, retry spacing, retries keep coming, bounded recovery, clean rejoin, survivors carry on; non-trivial = >= 1 link went down and came back",
        ctx.tier.pick(700, 12_000),
        || faultsim::strategy(horizon),
        |_| |c: &faultsim::Case, o: &mut Obs| faultsim::check(c, o, Which::C08, ctx),
    );
    // real reader tasks, socket re-open and reader restart, the timeout as configured at run time
    crate::props::e2e::run(ctx, crate::props::e2e::Phase::Recovery, ctx.tier.pick(1, 3));
    "fault_enumeration"
}

//! C13 — stall latch: quick to drop, conservative to rejoin, never blind.
//! Independent temporal monitor over generated timed traces; the latch and
//! pull are driven only through the real `select_connection_idx`.

use proptest::collection::vec;
use proptest::prelude::*;
use serde::{Deserialize, Serialize};
use serde_json::json;
use srtla_core::connection::SrtlaConnection;
use srtla_core::selection::select_connection_idx;
use srtla_core::{ConfigSnapshot, SchedulingMode};

use crate::engine::core::{T0, apply_inbound, apply_keepalive_echo, apply_reg3, new_link};
use crate::rt::{CheckResult, Ctx, Obs, idx};

#[derive(Debug, Clone, Hash, Serialize, Deserialize)]
pub enum Op {
    Select,
    Advance(u32),
    Load(u16, u8),
    Drain(u16),
    Inbound(u16),
    EarnedAck(u16),
    ForeignAck(u16),
    KeepaliveEcho(u16, u16),
    RttBaseline(u16, u16),
    Reset(u16, u8),
    Disconnect(u16),
    Guard(bool),
    Threshold(u8),
    Ceiling(u8),
    Mode(bool),
    /// a loss report (NAK) for a sequence number this link holds, attributed to it: a charge, never delivery proof
    NakOwned(u16),
    /// packets routed to the link but still in its batch queue (not yet flushed, hence not in flight)
    Queue(u16, u8),
    /// the link's batch is flushed: the queued packets are in flight from now on
    FlushQ(u16),
}

#[derive(Debug, Clone, Hash, Serialize, Deserialize)]
pub struct Case {
    pub n_links: u8,
    pub threshold: u8,
    pub ceiling: u8,
    pub classic: bool,
    pub blocks: Vec<(Vec<Op>, u8)>,
}

const THRESHOLDS: &[i32] = &[32, 32, 1, 0, -1, i32::MIN, i32::MAX, 8];
const CEILINGS: &[u64] = &[3000, 3000, 1000, 999, 1, 0, u64::MAX, 1500, 6000];

fn adv() -> impl Strategy<Value = u32> {
    prop_oneof![
        4 => proptest::sample::select(vec![0u32, 1, 100, 249, 250, 251, 499, 500, 999, 1000, 1001, 1999, 2000, 2001, 2999, 3000, 3001, 5999, 6000, 6001]),
        2 => 0u32..400,
        1 => 0u32..8000,
    ]
}

fn op() -> impl Strategy<Value = Op> {
    prop_oneof![
        10 => Just(Op::Select),
        8 => adv().prop_map(Op::Advance),
        4 => (any::<u16>(), prop_oneof![Just(1u8), Just(31), Just(32), Just(33), 1u8..80]).prop_map(|(l, n)| Op::Load(l, n)),
        2 => any::<u16>().prop_map(Op::Drain),
        4 => any::<u16>().prop_map(Op::Inbound),
        5 => any::<u16>().prop_map(Op::EarnedAck),
        1 => any::<u16>().prop_map(Op::ForeignAck),
        3 => (any::<u16>(), prop_oneof![Just(0u16), Just(1), 1u16..600, Just(10_000), Just(10_001)]).prop_map(|(l, a)| Op::KeepaliveEcho(l, a)),
        3 => (any::<u16>(), prop_oneof![Just(20u16), Just(62), Just(125), Just(249), Just(250), Just(251), Just(500), Just(750), Just(2000), 1u16..2500]).prop_map(|(l, r)| Op::RttBaseline(l, r)),
        1 => (any::<u16>(), 0u8..3).prop_map(|(l, k)| Op::Reset(l, k)),
        1 => any::<u16>().prop_map(Op::Disconnect),
        1 => prop::bool::weighted(0.6).prop_map(Op::Guard),
        1 => (0u8..THRESHOLDS.len() as u8).prop_map(Op::Threshold),
        1 => (0u8..CEILINGS.len() as u8).prop_map(Op::Ceiling),
        1 => any::<bool>().prop_map(Op::Mode),
        3 => any::<u16>().prop_map(Op::NakOwned),
        2 => (any::<u16>(), prop_oneof![Just(1u8), Just(12), Just(31), 1u8..32]).prop_map(|(l, k)| Op::Queue(l, k)),
        1 => any::<u16>().prop_map(Op::FlushQ),
    ]
}

pub fn strategy(max_blocks: usize) -> impl Strategy<Value = Case> {
    (
        2u8..=3,
        0u8..THRESHOLDS.len() as u8,
        0u8..CEILINGS.len() as u8,
        any::<bool>(),
        vec((vec(op(), 1..6), prop_oneof![3 => Just(1u8), 2 => 2u8..6, 1 => 6u8..14]), 1..max_blocks),
    )
        .prop_map(|(n_links, threshold, ceiling, classic, blocks)| Case { n_links, threshold, ceiling, classic, blocks })
}

#[derive(Default, Clone)]
struct Mon {
    proof: u64,
    heard: Option<u64>,
    reset_since: bool,
    disconnect_since: bool,
    run_start: Option<u64>,
    w_min: u64,
    // bookkeeping for classes
    latches: u32,
    release_attempts: u32,
    releases: u32,
    pulls: u32,
}

fn staleness_window(c: &SrtlaConnection, ceiling: u64) -> u64 {
    let srtt = c.get_smooth_rtt_ms();
    if srtt <= 0.0 {
        ceiling
    } else {
        let base = (srtt.floor() as u64).saturating_mul(4).max(1000);
        base.min(ceiling)
    }
}

fn pull_window(c: &SrtlaConnection, ceiling: u64) -> u64 {
    let srtt = c.get_smooth_rtt_ms();
    let base = if srtt <= 0.0 { 250 } else { (srtt.floor() as u64).saturating_mul(2).max(250) };
    base.min(staleness_window(c, ceiling))
}

pub fn check(case: &Case, obs: &mut Obs) -> CheckResult {
    let n = case.n_links as usize;
    let mut now = T0;
    let mut links: Vec<SrtlaConnection> = (0..n)
        .map(|i| {
            let mut c = new_link(i, now);
            apply_reg3(&mut c, now);
            c
        })
        .collect();
    let mut mons: Vec<Mon> = (0..n)
        .map(|_| Mon {
            heard: Some(now),
            w_min: u64::MAX,
            ..Default::default()
        })
        .collect();
    let mut cfg = ConfigSnapshot {
        mode: if case.classic { SchedulingMode::Classic } else { SchedulingMode::Enhanced },
        stall_min_in_flight: THRESHOLDS[case.threshold as usize % THRESHOLDS.len()],
        stall_ack_stale_ms: CEILINGS[case.ceiling as usize % CEILINGS.len()],
        ..ConfigSnapshot::default()
    };
    let mut seq: i32 = 1;
    let mut last_sel: Option<usize> = None;
    let mut step = 0usize;

    for (ops, rep) in &case.blocks {
        for _ in 0..*rep {
            for op in ops {
                step += 1;
                match op {
                    Op::Advance(d) => now += *d as u64,
                    Op::Load(l, k) => {
                        let c = &mut links[idx(*l, n)];
                        for _ in 0..*k {
                            c.register_packet(seq, now);
                            seq += 1;
                        }
                    }
                    Op::Drain(l) => {
                        // cumulative ACK delivered via a healthy link: drains the backlog, proves nothing
                        let c = &mut links[idx(*l, n)];
                        c.handle_srt_ack(seq - 1, now);
                    }
                    Op::Inbound(l) => {
                        let i = idx(*l, n);
                        apply_inbound(&mut links[i], now);
                        mons[i].heard = Some(now);
                    }
                    Op::EarnedAck(l) => {
                        let i = idx(*l, n);
                        let c = &mut links[i];
                        c.register_packet(seq, now);
                        apply_inbound(c, now);
                        let found = c.handle_srtla_ack_specific(seq, cfg.mode.is_classic(), now);
                        seq += 1;
                        vensure!(found, "harness", "earned ack not found");
                        mons[i].heard = Some(now);
                        mons[i].proof = now;
                    }
                    Op::Queue(l, k) => {
                        let c = &mut links[idx(*l, n)];
                        for _ in 0..*k {
                            if c.batch_sender.queued_count() >= 31 {
                                break; // the next one would trigger the size flush
                            }
                            let mut p = [0u8; 32];
                            p[0..4].copy_from_slice(&(seq as u32).to_be_bytes());
                            c.queue_data_packet(&p, Some(seq as u32), now);
                            seq += 1;
                        }
                        obs.class("packets-queued-not-in-flight");
                    }
                    Op::FlushQ(l) => {
                        let _ = links[idx(*l, n)].take_batch(now);
                    }
                    Op::NakOwned(l) => {
                        // arrives on some other (healthy) link; the named link only loses the packet and pays for it
                        let c = &mut links[idx(*l, n)];
                        c.register_packet(seq, now);
                        c.handle_nak(seq, now);
                        seq += 1;
                        obs.class("nak-for-owned-seq");
                    }
                    Op::ForeignAck(l) => {
                        // SRTLA ACK that arrived on another link but names a seq this link holds
                        let i = idx(*l, n);
                        let c = &mut links[i];
                        c.register_packet(seq, now);
                        c.handle_srtla_ack_specific(seq, cfg.mode.is_classic(), now);
                        seq += 1;
                        mons[i].proof = now;
                    }
                    Op::KeepaliveEcho(l, age) => {
                        let i = idx(*l, n);
                        let c = &mut links[i];
                        if c.connected {
                            // a keepalive was sent `age` ms ago (only if the probe is not already outstanding)
                            let sent_at = now.saturating_sub(*age as u64);
                            if !c.rtt.waiting_for_keepalive_response {
                                c.rtt.record_keepalive_sent(sent_at);
                            }
                            let accepted = apply_keepalive_echo(c, sent_at, now);
                            mons[i].heard = Some(now);
                            if accepted {
                                mons[i].proof = now;
                            }
                        }
                    }
                    Op::RttBaseline(l, r) => {
                        links[idx(*l, n)].rtt.update_estimate(*r as u64, now);
                    }
                    Op::Reset(l, k) => {
                        let i = idx(*l, n);
                        let c = &mut links[i];
                        match k {
                            0 => c.mark_for_recovery(),
                            1 => c.reset_for_reconnect(now),
                            _ => {}
                        }
                        if *k < 2 {
                            mons[i].proof = 0;
                            mons[i].reset_since = true;
                            mons[i].disconnect_since = true;
                        }
                        apply_reg3(c, now);
                        mons[i].heard = Some(now);
                    }
                    Op::Disconnect(l) => {
                        let i = idx(*l, n);
                        links[i].mark_for_recovery();
                        mons[i].proof = 0;
                        mons[i].heard = None;
                        mons[i].reset_since = true;
                        mons[i].disconnect_since = true;
                    }
                    Op::Guard(b) => cfg.stall_deselect = *b,
                    Op::Threshold(t) => cfg.stall_min_in_flight = THRESHOLDS[*t as usize % THRESHOLDS.len()],
                    Op::Ceiling(c) => cfg.stall_ack_stale_ms = CEILINGS[*c as usize % CEILINGS.len()],
                    Op::Mode(b) => cfg.mode = if *b { SchedulingMode::Classic } else { SchedulingMode::Enhanced },
                    Op::Select => {
                        let before: Vec<(bool, u64, bool)> = links.iter().map(|c| (c.stall_latched(), c.stall_gate_events(), c.verif_guard_state().2)).collect();
                        let sel = select_connection_idx(&mut links, last_sel, now, &cfg);
                        if sel.is_some() {
                            last_sel = sel;
                        }
                        for i in 0..n {
                            let c = &links[i];
                            let (l0, e0, p0) = before[i];
                            let (l1, e1, p1) = (c.stall_latched(), c.stall_gate_events(), c.verif_guard_state().2);
                            let m = &mut mons[i];
                            if !cfg.stall_deselect {
                                vensure!(!l1 && !p1 && !c.is_stall_gated(), "guard-off-not-cleared", "step {step}: guard off but link {i} latched={l1} pulled={p1}");
                                vensure!(e1 == e0, "events-without-engage", "step {step}: gate event counted with the guard off");
                                m.run_start = None;
                                m.w_min = u64::MAX;
                                m.reset_since = false;
                                m.disconnect_since = false;
                                continue;
                            }
                            let ceiling = cfg.stall_ack_stale_ms;
                            let w = staleness_window(c, ceiling);
                            let pw = pull_window(c, ceiling);
                            let thr = cfg.stall_min_in_flight;
                            let proof_fresh = m.proof != 0 && now.saturating_sub(m.proof) < w;
                            // ---- silence pull
                            if !p0 && p1 {
                                let silence = m.heard.map(|h| now.saturating_sub(h));
                                vensure!(
                                    c.connected && c.in_flight_packets >= thr && silence.is_some_and(|s| s >= pw),
                                    "pull-engaged-wrongly",
                                    "step {step}: link {i} pulled with connected={} in-flight={} (threshold {}) silence={:?} window={}",
                                    c.connected,
                                    c.in_flight_packets,
                                    thr,
                                    silence,
                                    pw
                                );
                                m.pulls += 1;
                            }
                            if p0 && !p1 {
                                let heard_again = m.heard.is_some_and(|h| now.saturating_sub(h) < pw);
                                vensure!(
                                    heard_again || m.reset_since || m.disconnect_since || !c.connected,
                                    "pull-released-while-mute",
                                    "step {step}: link {i} pull released without inbound (silence {:?}, window {}, in-flight {})",
                                    m.heard.map(|h| now - h),
                                    pw,
                                    c.in_flight_packets
                                );
                            }
                            // ---- latch
                            vensure!(e1 == e0 + u64::from(!l0 && l1), "events-without-engage", "step {step}: link {i} gate events {e0}->{e1} with latch {l0}->{l1}");
                            if !l0 && l1 {
                                vensure!(m.proof != 0, "latched-blind", "step {step}: link {i} latched without ever producing delivery proof");
                                let age = now.saturating_sub(m.proof);
                                vensure!(age >= w, "latched-with-fresh-proof", "step {step}: link {i} latched with proof age {age} < window {w}");
                                vensure!(c.in_flight_packets >= thr || p1, "latched-without-backlog", "step {step}: link {i} latched with in-flight {} < threshold {} and no silence pull", c.in_flight_packets, thr);
                                m.latches += 1;
                                m.run_start = None;
                                m.w_min = u64::MAX;
                            } else if l0 {
                                // run bookkeeping includes this select
                                if proof_fresh {
                                    if m.run_start.is_none() {
                                        m.run_start = Some(now);
                                        m.w_min = w;
                                        m.release_attempts += 1;
                                    }
                                    m.w_min = m.w_min.min(w);
                                } else {
                                    m.run_start = None;
                                    m.w_min = u64::MAX;
                                }
                                if !l1 {
                                    if !m.reset_since {
                                        let span = m.run_start.map(|s| now - s);
                                        vensure!(
                                            proof_fresh && span.is_some_and(|d| d >= m.w_min.saturating_mul(2)),
                                            "released-early",
                                            "step {step}: link {i} rejoined after {:?} ms of continuously fresh proof (needs >= 2 x {}), proof age {}",
                                            span,
                                            m.w_min,
                                            now.saturating_sub(m.proof)
                                        );
                                    }
                                    m.releases += 1;
                                    m.run_start = None;
                                    m.w_min = u64::MAX;
                                }
                            }
                            m.reset_since = false;
                            m.disconnect_since = false;
                        }
                    }
                }
            }
        }
    }
    let latches: u32 = mons.iter().map(|m| m.latches).sum();
    let attempts: u32 = mons.iter().map(|m| m.release_attempts).sum();
    let releases: u32 = mons.iter().map(|m| m.releases).sum();
    let pulls: u32 = mons.iter().map(|m| m.pulls).sum();
    if latches > 0 {
        obs.class("latched");
    }
    if attempts > 0 {
        obs.class("fresh-proof-while-latched");
    }
    if releases > 0 {
        obs.class("released");
    }
    if pulls > 0 {
        obs.class("silence-pull");
    }
    obs.nontrivial = latches > 0 && attempts > 0;
    if obs.nontrivial {
        obs.sample = Some(json!({"links": n, "threshold": THRESHOLDS[case.threshold as usize % THRESHOLDS.len()], "ceiling": CEILINGS[case.ceiling as usize % CEILINGS.len()],
            "steps": step, "latches": latches, "releases": releases, "pulls": pulls, "first_block": format!("{:?}", case.blocks.first())}));
    }
    Ok(())
}

pub fn run(ctx: &Ctx) -> &'static str {
    ctx.assume("delivery proof and inbound times are tracked by the harness from the trace (earned ACK, foreign earned ACK, accepted keepalive echo; any inbound), not read back from the connection");
    ctx.assume("release must span >= 2 x the smallest effective window seen during the run of fresh-proof decisions (sound when the RTT baseline moves mid-run)");
    ctx.assume("a silence pull may release when the last inbound is inside the (possibly grown) pull window, on disconnect, reset or guard-off");
    for (file, body) in ctx.replay_files() {
        if !ctx.replay_case::<Case, _>("trace", &file, &body, check) {
            eprintln!("replay {}: unknown part", file.display());
        }
    }
    if ctx.replay.is_some() {
        return "exploration";
    }
    let mb = ctx.tier.pick(40, 120);
    ctx.explore(
        "trace",
        "timed traces on 2..3 real links of selects (real select_connection_idx), in-flight load/drain, inbound, earned ACKs, keepalive echoes, RTT baselines none/20..2500 ms, resets, disconnects, guard on/off, every threshold/ceiling incl. ceiling below the floor; blocks of ops repeated 1..14 times so sustained-proof runs occur; non-trivial = a latch engaged and a release attempt (fresh proof while latched) happened",
        ctx.tier.pick(150_000, 1_500_000),
        || strategy(mb),
        |_| check,
    );
    "exploration"
}

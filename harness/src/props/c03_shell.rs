//! C03 shell tier: the no-blackout predicate on real `handle_srt_packet`
//! decisions, with link states produced by real packets (incl. REG_ERR).
use std::path::Path;

use serde_json::Value;

use crate::props::decide::{self, Which};
use crate::rt::{Ctx, Obs};

pub fn replay(ctx: &Ctx, file: &Path, body: &Value) -> bool {
    ctx.replay_case::<decide::Case, _>("shell-decisions", file, body, |c, o| decide::check(c, o, Which::C03, ctx))
}

pub fn run(ctx: &Ctx) {
    let mo = ctx.tier.pick(50, 100);
    ctx.explore(
        "shell-decisions",
        "client datagrams through the real handle_srt_packet on a real shell (1..4 links over loopback) whose link states come from real packets through handle_uplink_packet (REG_ERR, REG3, REG_NGP, control, keepalive echoes, SRTLA ACKs, NAKs), real housekeeping, clock steps around the timeouts and the housekeeping arm's stamping writes; a datagram may be refused only when no link is usable; non-trivial = a decision where every usable link has a gate engaged or another link is unusable",
        ctx.tier.pick(20_000, 250_000),
        || decide::strategy(mo),
        |_| |c: &decide::Case, o: &mut Obs| decide::check(c, o, Which::C03, ctx),
    );
}

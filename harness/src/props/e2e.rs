//! End-to-end phases on the real event loop (engine E6), one per property that
//! has code inline in `run_sender_with_config`. Thorough tier only. Scenario
//! parameters come from the seed; pass/fail never depends on how *fast*
//! something happened, only on whether it happened within a generous bound; a
//! scenario that cannot even start is recorded as skipped.

use std::io::{BufRead, BufReader, Write};
use std::os::unix::net::UnixStream;
use std::time::Duration;

use serde_json::{Value, json};
use srtla_send::config::DynamicConfig;
use srtla_send::control::dispatch;

use crate::engine::e2e::E2e;
use crate::refmodel::codec as rc;
use crate::rt::{CheckResult, Ctx, Violation, mix_seed, viol};

fn client_datagram(seq: u32, len: usize) -> Vec<u8> {
    let mut p = vec![0u8; len.max(24)];
    p[0..4].copy_from_slice(&(seq & 0x7fff_ffff).to_be_bytes());
    p[4] = 0xc0;
    for (i, b) in p.iter_mut().enumerate().skip(16) {
        *b = (seq as u8).wrapping_mul(31).wrapping_add(i as u8);
    }
    p[16..20].copy_from_slice(&seq.to_be_bytes());
    p
}

/// C01: every client datagram reaches the receiver unchanged, in per-link order.
pub fn phase_uplink(e: &E2e, first_seq: u32, n: u32, len: usize) -> CheckResult {
    phase_uplink_lens(e, first_seq, n, &[len])
}

/// Same, with datagram lengths cycling through `lens` (up to the MTU the listener must accept whole).
pub fn phase_uplink_lens(e: &E2e, first_seq: u32, n: u32, lens: &[usize]) -> CheckResult {
    let before = e.log.lock().unwrap().data.len();
    let mut sent = Vec::new();
    for k in 0..n {
        let d = client_datagram(first_seq + k, lens[k as usize % lens.len()]);
        e.client_send(&d);
        sent.push(d);
        if k % 25 == 24 {
            std::thread::sleep(Duration::from_millis(2));
        }
    }
    let want = sent.len();
    let ok = e.wait_until(Duration::from_secs(8), |lg| {
        let got: std::collections::BTreeSet<&Vec<u8>> = lg.data[before..].iter().map(|d| &d.1).collect();
        sent.iter().all(|s| got.contains(s))
    });
    let lg = e.log.lock().unwrap();
    let got = &lg.data[before..];
    if !ok {
        // a datagram that arrived with the right number but other bytes / another length was modified, not lost
        for sd in sent.iter().filter(|s| !got.iter().any(|g| &g.1 == *s)) {
            if let Some(g) = got.iter().find(|g| g.1.len() >= 20 && g.1[0] & 0x80 == 0 && g.1[16..20] == sd[16..20]) {
                return viol("e2e-datagram-corrupted", format!("real event loop: client datagram seq {} of {} bytes arrived as {} bytes{} on link {}", u32::from_be_bytes([sd[16], sd[17], sd[18], sd[19]]), sd.len(), g.1.len(), if sd.starts_with(&g.1) { " (truncated)" } else { "" }, g.0));
            }
        }
        let missing: Vec<u32> = sent.iter().filter(|s| !got.iter().any(|g| &g.1 == *s)).map(|s| u32::from_be_bytes([s[16], s[17], s[18], s[19]])).take(8).collect();
        return viol("e2e-datagram-lost", format!("real event loop: {} of {} client datagrams never reached the receiver within 8 s (first missing seqs {:?})", sent.iter().filter(|s| !got.iter().any(|g| &g.1 == *s)).count(), want, missing));
    }
    // nothing invented / corrupted: every stream datagram on the wire is one we sent (now or earlier)
    for g in got {
        if g.1.len() >= 20 && g.1[0] & 0x80 == 0 {
            let sq = u32::from_be_bytes([g.1[16], g.1[17], g.1[18], g.1[19]]);
            let exp = client_datagram(sq, g.1.len());
            vensure!(g.1 == exp, "e2e-datagram-corrupted", "real event loop: datagram seq {sq} arrived modified on link {}", g.0);
        }
    }
    // per-link order
    let mut last: std::collections::BTreeMap<u8, u32> = Default::default();
    let mut copies: std::collections::BTreeMap<u32, u32> = Default::default();
    for g in got {
        if g.1.len() >= 20 && g.1[0] & 0x80 == 0 {
            let sq = u32::from_be_bytes([g.1[16], g.1[17], g.1[18], g.1[19]]);
            *copies.entry(sq).or_default() += 1;
            if let Some(p) = last.get(&g.0) {
                vensure!(sq >= *p, "e2e-datagram-reordered", "real event loop: link {} carried seq {sq} after {p}", g.0);
            }
            last.insert(g.0, sq);
        }
    }
    let dups = copies.values().filter(|c| **c > 1).count();
    vensure!(dups * 50 <= want + 50, "e2e-too-many-copies", "real event loop: {dups} of {want} datagrams arrived more than once");
    Ok(())
}

/// C01, hold bound: a datagram that is alone in its batch leaves with the next 15 ms flush tick, also while other
/// arms of the loop keep firing (the receiver chatters on every link every few milliseconds). Judged with a bound
/// of 400 ms for something that takes at most 15 ms; discarded by the lag probe on an overloaded machine.
pub fn phase_uplink_trickle(e: &E2e, addrs: &[u8]) -> CheckResult {
    let stop = std::sync::atomic::AtomicBool::new(false);
    let mut worst: (u64, u32) = (0, 0);
    let mut lost = 0u32;
    std::thread::scope(|s| {
        s.spawn(|| {
            let mut k = 0u32;
            while !stop.load(std::sync::atomic::Ordering::Relaxed) {
                for a in addrs {
                    let mut d = vec![0x80u8, 0x06, 0, 0];
                    d.extend_from_slice(&k.to_be_bytes());
                    d.extend_from_slice(&[0u8; 8]);
                    let _ = e.rx_send(*a, &d);
                }
                k += 1;
                std::thread::sleep(Duration::from_millis(4));
            }
        });
        std::thread::sleep(Duration::from_millis(100));
        for k in 0..12u32 {
            let d = client_datagram(40_000 + k, 300);
            let t_send = e.ms();
            e.client_send(&d);
            let arrived = e.wait_until(Duration::from_millis(1500), |lg| lg.data.iter().rev().take(400).any(|x| x.1 == d));
            if arrived {
                let t_arr = e.log.lock().unwrap().data.iter().rev().find(|x| x.1 == d).map(|x| x.2).unwrap_or(t_send);
                let hold = t_arr.saturating_sub(t_send);
                if hold > worst.0 {
                    worst = (hold, 40_000 + k);
                }
            } else {
                lost += 1;
                worst = (1500, 40_000 + k);
            }
            std::thread::sleep(Duration::from_millis(100));
        }
        stop.store(true, std::sync::atomic::Ordering::Relaxed);
    });
    let _ = e.client_drain(30, |_| false);
    if std::env::var_os("VERIF_E2E_TRACE").is_some() {
        eprintln!("trickle: worst hold {} ms (seq {}), not seen within 1.5 s: {lost}", worst.0, worst.1);
    }
    vensure!(worst.0 <= 400, "e2e-held-too-long", "real event loop: a single client datagram (seq {}) sent while the receiver chatters on every link every 4 ms reached the wire {} ms later; the hold bound is one 15 ms flush tick", worst.1, if lost > 0 { format!("more than 1500 ms ({lost} of 12)") } else { worst.0.to_string() });
    Ok(())
}

/// C09: a burst of receiver traffic (more than one drain pass) reaches the client unchanged; internal types do not.
pub fn phase_relay(e: &E2e, a: u8, n: u32) -> CheckResult {
    phase_relay_window(e, a, n, 0x7a00_0000, 6000)
}

fn phase_relay_window(e: &E2e, a: u8, n: u32, tag: u32, wait_ms: u64) -> CheckResult {
    let _ = e.client_drain(50, |_| false);
    let mut expected = Vec::new();
    for k in 0..n {
        let internal = k % 9 == 4;
        let mut d = if internal { vec![0x91, 0x00, 0, 0] } else if k % 2 == 0 { vec![0x80, 0x07, 0, 0] } else { vec![0x80, 0x02, 0, 0] };
        d.extend_from_slice(&(tag + k).to_be_bytes());
        d.extend_from_slice(&[0u8; 16]);
        d.extend_from_slice(&k.to_be_bytes());
        if !internal {
            expected.push(d.clone());
        }
        vensure!(e.rx_send(a, &d), "e2e-harness", "no address known for link {a}");
    }
    let exp2 = expected.clone();
    let got = e.client_drain(wait_ms, move |out| exp2.iter().all(|x| out.contains(x)));
    let missing = expected.iter().filter(|x| !got.contains(x)).count();
    vensure!(missing == 0, "e2e-relay-lost", "real event loop: {missing} of {} receiver datagrams sent in one burst never reached the SRT client within {wait_ms} ms", expected.len());
    for g in &got {
        vensure!(rc::packet_type(g) != Some(rc::T_SRTLA_ACK) && rc::packet_type(g) != Some(rc::T_KEEPALIVE), "e2e-internal-relayed", "real event loop: an SRTLA-internal datagram reached the client");
    }
    Ok(())
}

/// C09: the same burst on a link that is otherwise silent (the receiver stops answering it just before), so that
/// nothing but the burst itself wakes the uplink's reader; every datagram must still come through.
pub fn phase_relay_quiet(e: &E2e, a: u8, n: u32) -> CheckResult {
    e.policy.lock().unwrap().muted.insert(a);
    std::thread::sleep(Duration::from_millis(60));
    let r = phase_relay_window(e, a, n, 0x7b00_0000, 3000);
    e.policy.lock().unwrap().muted.remove(&a);
    r.map_err(|v| Violation { sig: v.sig, msg: format!("{} (link otherwise silent)", v.msg) })
}

/// C14: keepalives keep flowing on every live link (gap <= 2 housekeeping periods + slack).
pub fn phase_keepalive(e: &E2e, addrs: &[u8], watch_ms: u64) -> CheckResult {
    let t0 = e.ms();
    std::thread::sleep(Duration::from_millis(watch_ms));
    let lg = e.log.lock().unwrap();
    for a in addrs {
        // a keepalive goes out when >= 1000 ms have passed since the last one, checked at 1000 ms ticks: a tick that
        // measures 999 ms skips, so gaps of two periods are normal; the look-back window covers two periods and slack
        let ts: Vec<u64> = lg.keepalives.iter().filter(|k| k.0 == *a && k.1 >= t0.saturating_sub(2400)).map(|k| k.1).collect();
        vensure!(!ts.is_empty(), "e2e-keepalive-gap", "real event loop: link {a} sent no keepalive in {} ms", watch_ms + 2400);
        for w in ts.windows(2) {
            vensure!(w[1] - w[0] <= 2600, "e2e-keepalive-gap", "real event loop: link {a} keepalive gap {} ms", w[1] - w[0]);
        }
    }
    Ok(())
}

/// C19: SIGHUP reload through the real signal arm and the deferred apply in the housekeeping arm.
pub fn phase_reload(e: &E2e, keep: &[u8], remove: u8, add: u8, next_seq: u32) -> CheckResult {
    // 1. a reload that must be refused (garbage only) changes nothing
    std::fs::write(&e.ips_path, "not-an-address\n\n").unwrap();
    e.sighup();
    std::thread::sleep(Duration::from_millis(2300));
    phase_keepalive(e, &[keep[0], remove], 300).map_err(|v| Violation { sig: "e2e-refused-reload-applied".into(), msg: format!("after a refused reload: {}", v.msg) })?;
    // 2. the real reload: drop `remove`, add `add`, with a repeated line and a garbage line
    let mut list: Vec<u8> = keep.to_vec();
    list.push(add);
    let mut text: String = list.iter().map(|k| format!(" {}\r\n", crate::engine::shell::link_ip(*k))).collect();
    text.push_str(&format!("garbage\n{}\n", crate::engine::shell::link_ip(keep[0])));
    std::fs::write(&e.ips_path, text).unwrap();
    let t_reload = e.ms();
    e.sighup();
    // the new address registers (REG2 -> REG3) and the removed one falls silent
    let ok = e.wait_until(Duration::from_secs(14), |lg| lg.members.contains(&add));
    vensure!(ok, "e2e-new-address-not-added", "real event loop: address {add} listed in the reloaded file did not register within 14 s");
    std::thread::sleep(Duration::from_millis(2500));
    {
        let lg = e.log.lock().unwrap();
        let late = lg.keepalives.iter().filter(|k| k.0 == remove && k.1 > t_reload + 2500).count() + lg.data.iter().filter(|d| d.0 == remove && d.2 > t_reload + 2500).count();
        vensure!(late == 0, "e2e-stale-link-kept", "real event loop: address {remove} was removed from the list but still sent {late} datagrams 2.5 s after the reload");
        let dup_regs = lg.regs.iter().filter(|r| r.0 == add).map(|r| lg.addr_of.get(&r.0)).count();
        let _ = dup_regs;
    }
    // survivors keep carrying the stream
    phase_uplink(e, next_seq, 400, 300)?;
    phase_keepalive(e, keep, 1500)?;
    // 3. a third reload, back to the list the sender was started with: it is a change like any other (the address
    // dropped in step 2 comes back, the one added there goes)
    let mut back: Vec<u8> = keep.to_vec();
    back.push(remove);
    e.write_ips(&back);
    let t_back = e.ms();
    e.sighup();
    let ok = e.wait_until(Duration::from_secs(14), |lg| lg.order.iter().any(|o| o.1 == remove && o.3 == 4 && o.4 >= t_back));
    vensure!(ok, "e2e-new-address-not-added", "real event loop: a third reload restored the start-up list; address {remove} (dropped by the second reload) did not register again within 14 s");
    phase_uplink(e, next_seq + 1000, 200, 300)?;
    // 4. two reloads in quick succession (150 ms apart, normally inside one housekeeping interval): the list that
    // counts is the one written last. Both rounds are built so that `remove` is listed in the last file and not in
    // the one before it: whether the two are applied in one go or one after the other, `remove` must be alive afterwards.
    let mut both: Vec<u8> = back.clone();
    both.push(add);
    let mut only_add: Vec<u8> = keep.to_vec();
    only_add.push(add);
    for (round, (first, last)) in [(only_add.clone(), both.clone()), (keep.to_vec(), back.clone())].into_iter().enumerate() {
        e.write_ips(&first);
        e.sighup();
        std::thread::sleep(Duration::from_millis(150));
        e.write_ips(&last);
        let t2 = e.ms();
        e.sighup();
        let ok = e.wait_until(Duration::from_secs(16), |lg| lg.keepalives.iter().any(|k| k.0 == remove && k.1 > t2 + 6000));
        vensure!(
            ok,
            "e2e-last-reload-not-applied",
            "real event loop: two reloads 150 ms apart (round {round}): the file written last lists address {remove}, the one before it does not; 6..16 s later address {remove} sends nothing - the earlier list was applied and the later one lost"
        );
        let want_add = last.contains(&add);
        let t3 = e.ms();
        std::thread::sleep(Duration::from_millis(2600));
        let lg = e.log.lock().unwrap();
        let add_alive = lg.keepalives.iter().any(|k| k.0 == add && k.1 > t3);
        vensure!(add_alive == want_add, "e2e-last-reload-not-applied", "real event loop: two reloads 150 ms apart (round {round}): address {add} is {} in the file written last but {} afterwards", if want_add { "listed" } else { "not listed" }, if add_alive { "still sends keepalives" } else { "sends nothing" });
    }
    Ok(())
}

/// C19: a reload requested in the middle of a total outage - every listed uplink has been dead for longer than the
/// all-links-failed timer (10 s after the last one timed out), so every housekeeping pass ends in its error branch -
/// is still a valid reload: the new, working address it lists must come up.
pub fn phase_reload_outage(e: &E2e, addrs: &[u8], add: u8) -> CheckResult {
    {
        let mut p = e.policy.lock().unwrap();
        for a in addrs {
            p.muted.insert(*a);
        }
    }
    // liveness timeout 2 s + all-links-failed timer 10 s + two passes
    std::thread::sleep(Duration::from_millis(2000 + 10_000 + 2500));
    let mut list: Vec<u8> = addrs.to_vec();
    list.push(add);
    e.write_ips(&list);
    let t = e.ms();
    e.sighup();
    let ok = e.wait_until(Duration::from_secs(16), |lg| lg.order.iter().any(|o| o.1 == add && o.4 >= t));
    let r = (|| {
        vensure!(ok, "e2e-reload-lost-in-outage", "real event loop: every listed uplink had been dead for > 12 s (all-links-failed state) when a reload added address {add}; the receiver heard nothing from that address within 16 s - the reload was never applied");
        Ok(())
    })();
    let mut p = e.policy.lock().unwrap();
    for a in addrs {
        p.muted.remove(a);
    }
    r
}

/// C19: a reload requested while the start-up probe round is still open (one address does not answer its probe)
/// is a valid reload like any other: it is applied, not lost.
pub fn phase_reload_early(e: &E2e, keep: &[u8], remove: u8, add: u8) -> CheckResult {
    // the signal listener exists once the sender has sent its first frame (it is created before the first housekeeping pass)
    let seen = e.wait_until(Duration::from_secs(8), |lg| !lg.regs.is_empty());
    vensure!(seen, "e2e-harness", "the sender sent no registration frame within 8 s");
    let mut list: Vec<u8> = keep.to_vec();
    list.push(add);
    let text: String = list.iter().map(|k| format!("{}
", crate::engine::shell::link_ip(*k))).collect();
    std::fs::write(&e.ips_path, text).unwrap();
    let t_reload = e.ms();
    e.sighup();
    let ok = e.wait_until(Duration::from_secs(20), |lg| lg.members.contains(&add) && keep.iter().all(|k| lg.members.contains(k)));
    vensure!(ok, "e2e-new-address-not-added", "real event loop: a reload requested {} ms after start-up (probe round still open: address {remove} does not answer) was not applied within 20 s - address {add} never registered (members {:?})", t_reload, e.log.lock().unwrap().members);
    std::thread::sleep(Duration::from_millis(2500));
    {
        let lg = e.log.lock().unwrap();
        let late = lg.order.iter().filter(|o| o.1 == remove && o.4 > t_reload + 2500).count();
        vensure!(late == 0, "e2e-stale-link-kept", "real event loop: address {remove} was removed by a reload during start-up but still sent {late} datagrams 2.5 s later");
    }
    phase_uplink(e, 3000, 200, 300)
}

/// C18: the real Unix control socket answers like the stdin dispatcher; notifications get nothing.
pub fn phase_control(e: &E2e, lines: &[String]) -> CheckResult {
    phase_control_at(&e.ctl_path, &e.config, None, lines)
}

/// The same comparison against any running control socket. `twin`: a stdin-side configuration that has seen
/// the same history (created from the live one when None).
pub fn phase_control_at(ctl_path: &std::path::Path, live: &DynamicConfig, twin: Option<&DynamicConfig>, lines: &[String]) -> CheckResult {
    let stream = match UnixStream::connect(ctl_path) {
        Ok(s) => s,
        Err(err) => return viol("e2e-harness", format!("cannot connect to the control socket: {err}")),
    };
    stream.set_read_timeout(Some(Duration::from_secs(10))).ok();
    let mut w = stream.try_clone().unwrap();
    let mut r = BufReader::new(stream);
    let own_twin = DynamicConfig::new();
    let twin = twin.unwrap_or(&own_twin);
    // bring the twin to the live configuration
    let s = live.snapshot();
    let _ = dispatch(twin, None, None, &format!(r#"{{"jsonrpc":"2.0","method":"set_mode","params":{{"mode":"{}"}}}}"#, s.mode));
    let _ = dispatch(twin, None, None, &format!(r#"{{"jsonrpc":"2.0","method":"set_quality","params":{{"enabled":{}}}}}"#, s.quality_enabled));
    let _ = dispatch(twin, None, None, &format!(r#"{{"jsonrpc":"2.0","method":"set_stall_deselect","params":{{"enabled":{}}}}}"#, s.stall_deselect));
    let _ = dispatch(twin, None, None, &format!(r#"{{"jsonrpc":"2.0","method":"set_conn_timeout","params":{{"ms":{}}}}}"#, s.conn_timeout_ms));
    let read_line = |r: &mut BufReader<UnixStream>| -> Result<String, Violation> {
        let mut l = String::new();
        match r.read_line(&mut l) {
            Ok(n) if n > 0 => Ok(l.trim_end().to_string()),
            _ => Err(Violation { sig: "e2e-control-no-answer".into(), msg: "the control socket closed or did not answer within 10 s".into() }),
        }
    };
    for (i, line) in lines.iter().enumerate() {
        if line.contains('\n') || line.contains('\r') {
            continue;
        }
        // skip stats / subscription methods (live data differs between the two sides)
        if line.contains("get_stats") || line.contains("subscri") || line.contains("critical") {
            continue;
        }
        let expect = dispatch(twin, None, None, line).map(|x| serde_json::from_str::<Value>(&x.to_json()).unwrap());
        w.write_all(line.as_bytes()).and_then(|_| w.write_all(b"\n")).map_err(|err| Violation { sig: "e2e-control-no-answer".into(), msg: format!("write failed: {err}") })?;
        // sentinel: its answer must be the next line if `line` is a notification
        let sentinel = format!(r#"{{"jsonrpc":"2.0","id":"sentinel-{i}","method":"no_such_method_sentinel"}}"#);
        w.write_all(sentinel.as_bytes()).and_then(|_| w.write_all(b"\n")).ok();
        let first = read_line(&mut r)?;
        let fv: Value = serde_json::from_str(&first).unwrap_or(Value::String(first.clone()));
        let is_sentinel = fv.get("id") == Some(&json!(format!("sentinel-{i}")));
        match (&expect, is_sentinel) {
            (None, true) => {}
            (None, false) => return viol("e2e-entry-points-differ", format!("control socket answered {first} to {:?}, the stdin dispatcher answers nothing", line)),
            (Some(x), true) => return viol("e2e-entry-points-differ", format!("control socket answered nothing to {:?}, the stdin dispatcher answers {x}", line)),
            (Some(x), false) => {
                // status carries live counters of the critical window: compare the configuration members only
                let strip = |v: &Value| {
                    let mut v = v.clone();
                    if let Some(o) = v.get_mut("result").and_then(|r| r.as_object_mut()) {
                        o.remove("critical_windows_received");
                        o.remove("critical_malformed_datagrams");
                    }
                    v
                };
                vensure!(strip(&fv) == strip(x), "e2e-entry-points-differ", "control socket answered {first} to {:?}, the stdin dispatcher answers {x}", line);
                let second = read_line(&mut r)?;
                let sv: Value = serde_json::from_str(&second).unwrap_or(Value::Null);
                vensure!(sv.get("id") == Some(&json!(format!("sentinel-{i}"))), "e2e-extra-response", "control socket sent a second line {second} for {:?}", line);
            }
        }
        // the live configuration follows
        let a = live.snapshot();
        let b = twin.snapshot();
        vensure!(
            a.mode == b.mode && a.quality_enabled == b.quality_enabled && a.stall_deselect == b.stall_deselect && a.conn_timeout_ms == b.conn_timeout_ms,
            "e2e-set-not-applied",
            "after {:?} over the control socket the live configuration {:?} differs from the stdin twin {:?}",
            line,
            a,
            b
        );
    }
    Ok(())
}

/// C20: a subscriber on the real socket receives the once-per-second stats events, tagged and in order,
/// while a second subscriber that never reads cannot stall the housekeeping pass (keepalives keep flowing).
pub fn phase_subscription(e: &E2e, addrs: &[u8]) -> CheckResult {
    // the stalled client: subscribes, then never reads
    let mut stalled = UnixStream::connect(&e.ctl_path).map_err(|err| Violation { sig: "e2e-harness".into(), msg: format!("connect: {err}") })?;
    stalled.write_all(b"{\"jsonrpc\":\"2.0\",\"id\":1,\"method\":\"subscribe\",\"params\":{\"topic\":\"stats\"}}\n").ok();
    let stream = UnixStream::connect(&e.ctl_path).map_err(|err| Violation { sig: "e2e-harness".into(), msg: format!("connect: {err}") })?;
    stream.set_read_timeout(Some(Duration::from_secs(10))).ok();
    let mut w = stream.try_clone().unwrap();
    let mut r = BufReader::new(stream);
    w.write_all(b"{\"jsonrpc\":\"2.0\",\"id\":7,\"method\":\"subscribe\",\"params\":{\"topic\":\"stats\"}}\n").ok();
    let mut l = String::new();
    vensure!(r.read_line(&mut l).is_ok_and(|n| n > 0), "e2e-control-no-answer", "subscribe got no answer");
    let v: Value = serde_json::from_str(l.trim()).unwrap_or(Value::Null);
    let sid = v["result"]["subscription_id"].as_str().unwrap_or("").to_string();
    vensure!(!sid.is_empty() && v["id"] == json!(7), "e2e-subscribe-failed", "subscribe answered {l}");
    let mut got = 0;
    for _ in 0..3 {
        let mut l = String::new();
        vensure!(r.read_line(&mut l).is_ok_and(|n| n > 0), "e2e-no-stats-events", "no stats event reached a subscriber of the real control socket within 10 s (got {got})");
        let v: Value = serde_json::from_str(l.trim()).unwrap_or(Value::Null);
        vensure!(v["method"] == json!("stats.update") && v["params"]["subscription_id"] == json!(sid), "e2e-event-mislabelled", "pushed line {} for subscription {sid}", l.trim());
        got += 1;
    }
    // unsubscribe: nothing more after the answer
    w.write_all(format!("{{\"jsonrpc\":\"2.0\",\"id\":8,\"method\":\"unsubscribe\",\"params\":{{\"subscription_id\":\"{sid}\"}}}}\n").as_bytes()).ok();
    let mut answered = false;
    for _ in 0..4 {
        let mut l = String::new();
        if !r.read_line(&mut l).is_ok_and(|n| n > 0) {
            break;
        }
        let v: Value = serde_json::from_str(l.trim()).unwrap_or(Value::Null);
        if v["id"] == json!(8) {
            vensure!(v["result"]["removed"] == json!(true), "e2e-unsubscribe-failed", "unsubscribe answered {}", l.trim());
            answered = true;
            break;
        }
    }
    vensure!(answered, "e2e-control-no-answer", "unsubscribe got no answer");
    r.get_ref().set_read_timeout(Some(Duration::from_millis(2500))).ok();
    let mut l = String::new();
    let late = r.read_line(&mut l).is_ok_and(|n| n > 0);
    vensure!(!late, "e2e-event-after-unsubscribe", "a stats event arrived 2.5 s after the unsubscribe was answered: {}", l.trim());
    // the stalled subscriber has been ignoring > 5 events by now; the data plane must be unaffected
    phase_keepalive(e, addrs, 2500)?;
    drop(stalled);
    Ok(())
}


/// C08 / C04: one uplink is black-holed on the real loop (the receiver sees its datagrams but stops answering),
/// long enough for the timeout and at least one retry, then the path comes back.
/// `focus` 8 asserts the C08 clauses, 4 only the C04 clause (no stream data on a link that is re-registering).
pub fn phase_recovery(e: &E2e, addrs: &[u8], timeout_ms: u64, focus: u8) -> CheckResult {
    let r = dispatch(&e.config, Some(&e.stats), Some(&e.cw), &format!(r#"{{"jsonrpc":"2.0","id":1,"method":"set_conn_timeout","params":{{"ms":{timeout_ms}}}}}"#));
    vensure!(r.is_some_and(|x| x.to_json().contains("result")), "e2e-harness", "set_conn_timeout {timeout_ms} was not accepted");
    phase_uplink(e, 1000, 200, 300)?;
    let victim = *addrs.last().unwrap();
    // mute right after the victim was heard from (keepalive echoed), so that its silence starts now
    let t_w = e.ms();
    let heard = e.wait_until(Duration::from_secs(4), |lg| lg.keepalives.iter().any(|k| k.0 == victim && k.1 >= t_w));
    vensure!(heard, "e2e-harness", "no keepalive from link {victim} within 4 s before the outage (covered by the keepalive phase)");
    std::thread::sleep(Duration::from_millis(30));
    let (t_mute, n_mute) = {
        let lg = e.log.lock().unwrap();
        e.policy.lock().unwrap().muted.insert(victim);
        (e.ms(), lg.order.last().map_or(0, |o| o.0))
    };
    let mute_for = timeout_ms + 7500;
    let before = e.log.lock().unwrap().data.len();
    let old_addr = e.log.lock().unwrap().addr_of.get(&victim).copied();
    let fds_before = std::fs::read_dir("/proc/self/fd").map(|d| d.count()).unwrap_or(0);
    let mut forged_at: Option<(u64, u64)> = None; // (arrival number, ms) when a REG3 was sent to the replaced socket
    let mut sent = Vec::new();
    let mut seq = 20_000u32;
    while e.ms() < t_mute + mute_for {
        for _ in 0..10 {
            let d = client_datagram(seq, 200);
            e.client_send(&d);
            sent.push(d);
            seq += 1;
        }
        std::thread::sleep(Duration::from_millis(50));
        // once the link has re-opened its socket (first re-registration frame from a new port), a late REG3
        // addressed to the replaced socket must fall on deaf ears
        if forged_at.is_none()
            && let Some(old) = old_addr
        {
            let lg = e.log.lock().unwrap();
            if let Some(o) = lg.order.iter().find(|o| o.0 > n_mute && o.1 == victim && (o.3 == 2 || o.3 == 3) && o.2 != old.port()) {
                let mark = (lg.order.last().map_or(o.0, |l| l.0), e.ms());
                drop(lg);
                let _ = e.rx_sock.send_to(&[0x92, 0x02], old);
                forged_at = Some(mark);
            }
        }
    }
    let _ = e.wait_until(Duration::from_secs(6), |lg| {
        let got: std::collections::BTreeSet<&Vec<u8>> = lg.data[before..].iter().map(|d| &d.1).collect();
        sent.iter().all(|s| got.contains(s))
    });
    let t_unmute = {
        let mut pol = e.policy.lock().unwrap();
        pol.muted.remove(&victim);
        e.ms()
    };
    {
        let lg = e.log.lock().unwrap();
        let got: std::collections::BTreeSet<&Vec<u8>> = lg.data[before..].iter().map(|d| &d.1).collect();
        let missing = sent.iter().filter(|s| !got.contains(*s)).count();
        let attempts: Vec<&(u64, u8, u16, u8, u64)> = lg.order.iter().filter(|o| o.0 > n_mute && o.1 == victim && (o.3 == 2 || o.3 == 3)).collect();
        if std::env::var_os("VERIF_E2E_TRACE").is_some() {
            eprintln!("recovery: victim {victim} timeout {timeout_ms} mute@{t_mute} unmute@{t_unmute} sent {} missing {missing} attempts {:?} victim-data-during-mute {}", sent.len(), attempts.iter().map(|a| (a.4.saturating_sub(t_mute), a.2, a.3)).collect::<Vec<_>>(), lg.data[before..].iter().filter(|d| d.0 == victim).count());
        }
        if focus == 8 {
            // survivors keep carrying the stream: at most one batch may die with the link that is torn down
            vensure!(missing <= 32, "e2e-survivor-dropped-packet", "real event loop: {missing} of {} client datagrams sent while one of {} uplinks was black-holed never left the sender", sent.len(), addrs.len());
            vensure!(!attempts.is_empty(), "e2e-failure-never-detected", "real event loop: link {victim} was silent for {mute_for} ms (timeout {timeout_ms} ms) and no re-registration attempt was seen");
            let first = attempts[0].4;
            vensure!(first + 400 >= t_mute + timeout_ms, "e2e-early-teardown", "real event loop: link {victim} re-registered {} ms after it was last heard, timeout {timeout_ms} ms", first.saturating_sub(t_mute));
            for w in attempts.windows(2) {
                vensure!(w[1].4 + 300 >= w[0].4 + 5000, "e2e-retry-too-soon", "real event loop: link {victim} reconnect attempts {} ms apart (< 5000)", w[1].4 - w[0].4);
            }
            if let Some((mark, at)) = forged_at {
                // the receiver never answered the re-opened socket, so the link is still registering: no keepalives
                if let Some(k) = lg.order.iter().find(|o| o.0 > mark && o.1 == victim && o.3 == 1) {
                    return viol(
                        "e2e-replaced-socket-still-heard",
                        format!("real event loop: link {victim} sent a keepalive {} ms after a REG3 was delivered to the socket it had already replaced (at {at} ms); it was never answered on its current socket", k.4.saturating_sub(at)),
                    );
                }
            }
            // healthy links are never torn down
            for o in lg.order.iter().filter(|o| o.0 > n_mute && o.1 != victim && (o.3 == 2 || o.3 == 3)) {
                return viol("e2e-early-teardown", format!("real event loop: healthy link {} sent a registration frame {} ms into another link's outage", o.1, o.4.saturating_sub(t_mute)));
            }
        }
    }
    // the path delivers again: connected within 30 s
    let back = e.wait_until(Duration::from_secs(33), |lg| lg.order.iter().any(|o| o.1 == victim && o.3 == 4 && o.4 >= t_unmute));
    if focus == 8 {
        vensure!(back, "e2e-not-recovered", "real event loop: link {victim} did not complete a registration within 33 s after its path came back");
        let t3 = e.ms();
        let alive = e.wait_until(Duration::from_millis(4000), |lg| lg.keepalives.iter().any(|k| k.0 == victim && k.1 >= t3) || lg.data.iter().any(|d| d.0 == victim && d.2 >= t3));
        vensure!(alive, "e2e-not-recovered", "real event loop: link {victim} was re-registered by the receiver but sent nothing for 4 s afterwards");
    }
    // C04: from its first re-registration frame until the receiver's REG3, the link carries no stream datagram
    if focus == 4 {
        let lg = e.log.lock().unwrap();
        let mut registering = false;
        for o in lg.order.iter().filter(|o| o.0 > n_mute && o.1 == victim) {
            match o.3 {
                2 | 3 => registering = true,
                4 => registering = false,
                0 if registering => {
                    return viol("e2e-stream-data-on-registering-link", format!("real event loop: link {victim} put a stream datagram on the wire {} ms after its re-registration frame and before the receiver's REG3", o.4));
                }
                _ => {}
            }
        }
    }
    phase_uplink(e, 60_000, 300, 300)?;
    if focus == 8 {
        // every retry re-opens the socket; "retried forever" needs the replaced one to be released
        let fds_after = std::fs::read_dir("/proc/self/fd").map(|d| d.count()).unwrap_or(0);
        let attempts = e.log.lock().unwrap().order.iter().filter(|o| o.0 > n_mute && o.1 == victim && (o.3 == 2 || o.3 == 3)).count();
        if std::env::var_os("VERIF_E2E_TRACE").is_some() {
            eprintln!("recovery: fds {fds_before} -> {fds_after}, attempts {attempts}, forged {:?}", forged_at);
        }
        vensure!(attempts < 2 || fds_after < fds_before + attempts, "e2e-socket-leak-per-retry", "real event loop: {attempts} reconnect attempts left {} more open file descriptors than before the outage ({fds_before} -> {fds_after})", fds_after.saturating_sub(fds_before));
    }
    Ok(())
}

/// C06: classic mode never applies time-based window recovery - also after a *runtime* switch to classic.
/// No stream data flows, so nothing but the housekeeping tick can move a window; the windows are read from
/// the telemetry of the keepalives the sender puts on the wire.
pub fn phase_mode_ticks(e: &E2e, addrs: &[u8], start_classic: bool) -> CheckResult {
    let windows_since = |t: u64| -> std::collections::BTreeMap<u8, Vec<(u64, i32)>> {
        let lg = e.log.lock().unwrap();
        let mut m: std::collections::BTreeMap<u8, Vec<(u64, i32)>> = Default::default();
        for (k, f) in lg.keepalives.iter().zip(lg.keepalive_frames.iter()) {
            if k.1 >= t && let Some(info) = rc::keepalive_info(f) {
                m.entry(k.0).or_default().push((k.1, info.window));
            }
        }
        m
    };
    let constant = |label: &str, t: u64| -> CheckResult {
        let w = windows_since(t);
        for a in addrs {
            let v = w.get(a).cloned().unwrap_or_default();
            vensure!(v.len() >= 2, "e2e-harness", "fewer than two keepalives from link {a} in the watch window ({label}); covered by the keepalive phase");
            for p in v.windows(2) {
                vensure!(p[1].1 == p[0].1, "e2e-classic-time-recovery", "real event loop, {label}: idle link {a} in classic mode moved its window {} -> {} between two housekeeping ticks ({} ms apart)", p[0].1, p[1].1, p[1].0 - p[0].0);
            }
        }
        Ok(())
    };
    let set_mode = |classic: bool| {
        let _ = dispatch(&e.config, Some(&e.stats), Some(&e.cw), &format!(r#"{{"jsonrpc":"2.0","id":1,"method":"set_mode","params":{{"mode":"{}"}}}}"#, if classic { "classic" } else { "enhanced" }));
    };
    let t0 = e.ms();
    std::thread::sleep(Duration::from_millis(3600));
    if start_classic {
        constant("started in classic mode", t0)?;
    }
    // switch at run time; the first tick after the switch must already honour it
    let mut now_classic = !start_classic;
    for round in 0..2 {
        set_mode(now_classic);
        let ts = e.ms();
        std::thread::sleep(Duration::from_millis(1300 + 3600));
        if now_classic {
            constant(if round == 0 { "after a runtime switch enhanced -> classic" } else { "after switching classic -> enhanced -> classic" }, ts + 1300)?;
        }
        now_classic = !now_classic;
    }
    Ok(())
}

/// C07 on the real loop: the first `lost` REG1 frames are lost, later the receiver forgets the group.
/// Judged from the frames the receiver sees (arrival order and times) and the group ids it handed out.
pub fn phase_handshake(e: &E2e, addrs: &[u8], lost: u32, forget_err: bool) -> CheckResult {
    let analyse = |what: &str| -> CheckResult {
        let lg = e.log.lock().unwrap();
        // REG1 frames: (ms, addr, answered?)
        let reg1: Vec<(u64, u8, bool)> = lg.regs.iter().filter(|r| r.1 == rc::T_REG1).map(|r| (r.2, r.0, lg.groups_created.iter().any(|g| g.0 == r.2))).collect();
        for w in reg1.windows(2) {
            if !w[0].2 && w[1].1 != w[0].1 {
                vensure!(
                    w[1].0 + 300 >= w[0].0 + 4000,
                    "e2e-reg1-on-two-links",
                    "real event loop, {what}: REG1 on link {} only {} ms after the unanswered REG1 on link {} (still outstanding for 4 s)",
                    w[1].1,
                    w[1].0 - w[0].0,
                    w[0].1
                );
            }
        }
        // registration REG2 frames carry an id the receiver handed out (start-up probes, sent before any group exists, are exempt)
        for (r, f) in lg.regs.iter().zip(lg.reg_frames.iter()) {
            if r.1 != rc::T_REG2 || f.len() != 258 {
                continue;
            }
            let Some(first) = lg.groups_created.first() else { continue };
            if r.2 <= first.0 {
                continue;
            }
            let known = lg.groups_created.iter().any(|g| g.0 <= r.2 && g.1[..] == f[2..]);
            vensure!(known, "e2e-reg2-wrong-id", "real event loop, {what}: link {} sent a REG2 at {} ms whose id is none of the {} ids the receiver handed out so far", r.0, r.2, lg.groups_created.iter().filter(|g| g.0 <= r.2).count());
        }
        // the id goes out in one round: no link sends two REG2 within 300 ms of a group's creation
        for g in &lg.groups_created {
            for a in addrs {
                let k = lg.regs.iter().zip(lg.reg_frames.iter()).filter(|(r, f)| r.0 == *a && r.1 == rc::T_REG2 && r.2 > g.0 && r.2 <= g.0 + 300 && f.len() == 258 && f[2..] == g.1[..]).count();
                vensure!(k <= 1, "e2e-reg2-broadcast-repeated", "real event loop, {what}: link {a} sent {k} REG2 frames within 300 ms of the group's creation");
            }
        }
        Ok(())
    };
    let up = e.wait_until(Duration::from_secs(30), |lg| addrs.iter().all(|a| lg.members.contains(a)));
    analyse("start-up")?;
    {
        let lg = e.log.lock().unwrap();
        let n1 = lg.regs.iter().filter(|r| r.1 == rc::T_REG1).count();
        vensure!(up, "e2e-handshake-stuck", "real event loop: {lost} REG1 frame(s) were lost at start-up; 30 s later not every link is registered (REG1 frames seen: {n1}, members {:?})", lg.members);
        vensure!(n1 as u32 > lost, "e2e-harness", "registered although only {n1} REG1 frames were seen and {lost} were dropped");
    }
    // the receiver forgets the group
    std::thread::sleep(Duration::from_millis(1500));
    if forget_err {
        // a receiver that refuses every REG2 with REG_ERR: the sender can do nothing but retry (a new group is only
        // started on REG_NGP, as in the reference implementation), so only the invariants are judged here
        e.policy.lock().unwrap().forget = Some(true);
        std::thread::sleep(Duration::from_millis(12_000));
        analyse("while the receiver refuses with REG_ERR")?;
    }
    let groups_before = e.log.lock().unwrap().groups_created.len();
    e.policy.lock().unwrap().forget = Some(false);
    let what = if forget_err { "after the receiver forgot the group (REG_ERR for 12 s, then REG_NGP)" } else { "after the receiver forgot the group (REG_NGP)" };
    let back = e.wait_until(Duration::from_secs(45), |lg| lg.groups_created.len() > groups_before && addrs.iter().all(|a| lg.members.contains(a)));
    analyse(what)?;
    if std::env::var_os("VERIF_E2E_TRACE").is_some() {
        let lg = e.log.lock().unwrap();
        eprintln!("handshake: groups {:?}", lg.groups_created.iter().map(|g| g.0).collect::<Vec<_>>());
        eprintln!("handshake: order tail {:?}", lg.order.iter().filter(|o| o.3 != 0).map(|o| (o.4, o.1, o.2, o.3)).collect::<Vec<_>>());
    }
    vensure!(back, "e2e-handshake-stuck", "real event loop, {what}: 45 s later the links are not all registered again (members {:?})", e.log.lock().unwrap().members);
    Ok(())
}

/// C17 on the real loop: the classifier's verdicts as the housekeeping arm computes, stamps and publishes them
/// (one `stats` event per tick, read through the in-process subscription hub). One link is made low-share (every
/// packet it carries is NAKed, so its window walks to the floor) while SIGHUP reloads with an unchanged file
/// arrive every 5 ticks; later it is black-holed and times out.
pub fn phase_weak_stats(e: &E2e, addrs: &[u8]) -> CheckResult {
    let victim = *addrs.last().unwrap();
    let vip = crate::engine::shell::link_ip(victim).to_string();
    let (tx, mut rx) = tokio::sync::mpsc::channel::<String>(512);
    let rt = e.rt.as_ref().unwrap();
    let sub = rt.block_on(e.hub.subscribe("stats", tx));
    let mut seq = 100u32;
    // (connected, weak, reason) of the victim, one entry per published tick
    let mut ticks: Vec<(bool, bool, String)> = Vec::new();
    // (share permille, threshold permille as published, connected links) per tick
    let shares: std::cell::RefCell<Vec<(u64, u64, usize)>> = std::cell::RefCell::new(Vec::new());
    let mut step = |e: &E2e, ticks: &mut Vec<(bool, bool, String)>, seq: &mut u32| {
        for _ in 0..19 {
            e.client_send(&client_datagram(*seq, 1316));
            *seq += 1;
        }
        std::thread::sleep(Duration::from_millis(50));
        while let Ok(line) = rx.try_recv() {
            if let Ok(v) = serde_json::from_str::<Value>(&line)
                && let Some(links) = v["params"]["data"]["links"].as_array()
                && let Some(l) = links.iter().find(|l| l["ip"].as_str() == Some(vip.as_str()))
            {
                let n_conn = links.iter().filter(|x| x["connected"].as_bool() == Some(true)).count();
                ticks.push((l["connected"].as_bool().unwrap_or(false), l["weak"].as_bool().unwrap_or(false), l["weak_reason"].as_str().unwrap_or("").to_string()));
                shares.borrow_mut().push((l["weak_share_permille"].as_u64().unwrap_or(0), l["weak_threshold_permille"].as_u64().unwrap_or(0), n_conn));
            }
        }
    };
    let weak_while_down = |ticks: &[(bool, bool, String)]| -> CheckResult {
        if let Some((i, t)) = ticks.iter().enumerate().find(|(_, t)| !t.0 && t.1) {
            return viol("e2e-weak-while-disconnected", format!("real event loop: the statistics published at tick {i} show link {victim} disconnected and weak ({})", t.2));
        }
        Ok(())
    };
    // 1. warm up, then every packet the victim carries is reported lost
    let t0 = e.ms();
    while e.ms() < t0 + 1200 {
        step(e, &mut ticks, &mut seq);
    }
    e.policy.lock().unwrap().nak_links.insert(victim);
    let n0 = ticks.len();
    let mut last_hup = ticks.len();
    // 2. 21 ticks with a reload (unchanged list) every 5 ticks
    e.write_ips(addrs);
    let t1 = e.ms();
    // watched until 17 ticks after the first low-share verdict (15 weak + the start of the probation)
    let enough = |ticks: &[(bool, bool, String)]| ticks[n0..].iter().position(|t| t.1).is_some_and(|f| ticks.len() >= n0 + f + 17);
    while !enough(&ticks) && e.ms() < t1 + 40_000 {
        step(e, &mut ticks, &mut seq);
        if ticks.len() >= last_hup + 5 {
            last_hup = ticks.len();
            e.sighup();
        }
    }
    vensure!(enough(&ticks), "e2e-harness", "the link did not turn weak early enough to watch 17 ticks of it within 40 s ({} ticks seen)", ticks.len() - n0);
    weak_while_down(&ticks)?;
    let mut run = 0usize;
    let mut longest = 0usize;
    let mut weak_ticks = 0usize;
    for t in &ticks[n0..] {
        if t.0 && t.1 && (t.2 == "low_share" || t.2 == "no_traffic") {
            run += 1;
            weak_ticks += 1;
            longest = longest.max(run);
        } else {
            run = 0;
        }
    }
    if std::env::var_os("VERIF_E2E_TRACE").is_some() {
        eprintln!("weakstats: victim {victim} ticks {:?}", ticks.iter().map(|t| format!("{}{}", if t.0 { 'c' } else { 'd' }, if t.1 { &t.2[..1] } else { "-" })).collect::<Vec<_>>().join(" "));
        eprintln!("weakstats: shares {:?}", shares.borrow());
    }
    vensure!(weak_ticks >= 3, "e2e-harness", "the scenario did not make link {victim} low-share weak ({weak_ticks} weak ticks of {}); nothing to judge", ticks.len() - n0);
    // leaving a low-share verdict needs three quarters of fair share (or the probation after 15 such verdicts)
    {
        let sh = shares.borrow();
        let mut streak = 0usize;
        for i in n0.max(1)..ticks.len().min(sh.len()) {
            let was = &ticks[i - 1];
            let was_share_weak = was.0 && was.1 && (was.2 == "low_share" || was.2 == "no_traffic");
            if was_share_weak {
                streak += 1;
            }
            let t = &ticks[i];
            if was_share_weak && t.0 && !t.1 && t.2 != "bypassed" && streak < 15 {
                let (share, _, n_conn) = sh[i];
                let need = 750 / n_conn.max(1) as u64;
                vensure!(
                    share + 2 >= need,
                    "e2e-left-weak-below-three-quarters",
                    "real event loop: link {victim} left its low-share verdict at tick {i} after {streak} such ticks with a share of {share} permille; leaving needs {need} permille (3/4 of fair share with {n_conn} links) - reloads with an unchanged list arrive every 5 ticks"
                );
            }
            if !was_share_weak {
                streak = 0;
            }
        }
    }
    vensure!(longest <= 15, "e2e-share-weak-16", "real event loop: link {victim} was reported weak for low share / no traffic on {longest} consecutive ticks (reloads with an unchanged list arrived every 5 ticks); after 15 a three-tick probation is due");
    // 3. the link is black-holed and the timeout lowered at run time: it is torn down while weak (a probation that
    // is in progress is waited out first)
    let t_w = e.ms();
    while e.ms() < t_w + 8000 && !ticks.last().is_some_and(|t| t.0 && t.1) {
        step(e, &mut ticks, &mut seq);
    }
    {
        let mut pol = e.policy.lock().unwrap();
        pol.muted.insert(victim);
    }
    let _ = dispatch(&e.config, Some(&e.stats), Some(&e.cw), r#"{"jsonrpc":"2.0","id":1,"method":"set_conn_timeout","params":{"ms":2000}}"#);
    let t2 = e.ms();
    while e.ms() < t2 + 9000 && ticks.last().is_none_or(|t| t.0) {
        step(e, &mut ticks, &mut seq);
    }
    for _ in 0..30 {
        step(e, &mut ticks, &mut seq);
    }
    weak_while_down(&ticks)?;
    if ticks.last().is_some_and(|t| !t.0) {
        // fine: torn down
    } else {
        return viol("e2e-harness", "the black-holed link was not torn down within 9 s (covered by the recovery phase)".to_string());
    }
    let _ = rt.block_on(e.hub.unsubscribe(&sub));
    Ok(())
}

#[derive(Clone, Copy, PartialEq, Eq, Debug)]
pub enum Phase {
    WeakStats,
    ReloadEarly,
    ReloadOutage,
    Handshake,
    ModeTicks,
    Recovery,
    RecoveryEligibility,
    Uplink,
    Relay,
    Keepalive,
    Reload,
    Control,
    Subscription,
}

/// Measures how late this process's threads are woken (sleep overshoot). The end-to-end phases
/// run in real time; when the machine is so loaded that a 10 ms sleep overshoots by more than
/// `LAG_LIMIT_MS`, a timing-dependent failure says nothing about the code and is discarded.
struct LagProbe {
    stop: std::sync::Arc<std::sync::atomic::AtomicBool>,
    max: std::sync::Arc<std::sync::atomic::AtomicU64>,
    h: Option<std::thread::JoinHandle<()>>,
}
const LAG_LIMIT_MS: u64 = 200;
impl LagProbe {
    fn start() -> Self {
        use std::sync::atomic::Ordering::Relaxed;
        let stop = std::sync::Arc::new(std::sync::atomic::AtomicBool::new(false));
        let max = std::sync::Arc::new(std::sync::atomic::AtomicU64::new(0));
        let (s2, m2) = (stop.clone(), max.clone());
        let h = std::thread::spawn(move || {
            while !s2.load(Relaxed) {
                let t = std::time::Instant::now();
                std::thread::sleep(Duration::from_millis(10));
                let lag = (t.elapsed().as_millis() as u64).saturating_sub(10);
                m2.fetch_max(lag, Relaxed);
            }
        });
        LagProbe { stop, max, h: Some(h) }
    }
    fn finish(mut self) -> u64 {
        self.stop.store(true, std::sync::atomic::Ordering::Relaxed);
        if let Some(h) = self.h.take() {
            let _ = h.join();
        }
        self.max.load(std::sync::atomic::Ordering::Relaxed)
    }
}

/// Run `scenarios` end-to-end scenarios for one property; a failure is a violation of that property.
pub fn run(ctx: &Ctx, phase: Phase, scenarios: usize) {
    if ctx.failed() {
        return;
    }
    let mut done = 0;
    let mut skipped = 0;
    let mut notes = Vec::new();
    for k in 0..scenarios {
        let z = mix_seed(ctx.seed, &ctx.id, "e2e", k);
        let n_links = 2 + (z % 3) as usize;
        let base = ((z >> 8) % 20) as u8;
        let addrs: Vec<u8> = (0..n_links as u8).map(|i| base + i).collect();
        // the mode-switch phase alternates its starting mode (an enhanced start exercises enhanced -> classic first)
        let classic = if phase == Phase::ModeTicks { k % 2 == 1 } else { (z >> 16) & 1 == 1 };
        // one attempt of the scenario; None = could not start (inconclusive)
        let attempt = |notes: &mut Vec<String>| -> Option<CheckResult> {
            let probe = LagProbe::start();
            // recovery phases start with a 2 s timeout and raise it at run time (4 / 5 / 6 s): a loop that kept
            // using the start-up value would tear the link down early
            let recovery_timeout = 4000 + 1000 * ((z >> 24) % 3);
            let timeout = if matches!(phase, Phase::Recovery | Phase::RecoveryEligibility | Phase::ReloadOutage) {
                2000
            } else if phase == Phase::WeakStats {
                60_000
            } else {
                5000
            };
            let cfg = DynamicConfig::from_cli(if classic { srtla_core::SchedulingMode::Classic } else { srtla_core::SchedulingMode::Enhanced }, (z >> 17) & 1 == 1, (z >> 18) & 1 == 1, 32, 3000, timeout);
            let lost_reg1 = 1 + ((z >> 28) % 2) as u32;
            let started = if phase == Phase::Handshake {
                E2e::start_raw(&addrs, cfg, crate::engine::e2e::RxPolicy { ignore_reg1: lost_reg1, ..Default::default() })
            } else if phase == Phase::ReloadEarly {
                E2e::start_raw(&addrs, cfg, crate::engine::e2e::RxPolicy { muted: [addrs[n_links - 1]].into_iter().collect(), ..Default::default() })
            } else {
                E2e::start(&addrs, cfg, Duration::from_secs(20))
            };
            let Some(e) = started else {
                notes.push(format!("scenario {k}: start-up did not complete within 20 s (inconclusive, skipped; scheduling lag up to {} ms)", probe.finish()));
                return None;
            };
            let r: CheckResult = match phase {
                Phase::Uplink => phase_uplink(&e, 1000, 1500 + (z % 1500) as u32, [188usize, 1316, 24, 700][(z >> 20) as usize % 4]).and_then(|_| phase_uplink_lens(&e, 10_000, 600, &[1316, 24, 1500, 1473, 1472, 1499, 188, 20])).and_then(|_| phase_uplink_trickle(&e, &addrs)),
                // the client address becomes known with the first client datagram
                Phase::Relay => phase_uplink(&e, 1000, 60, 300).and_then(|_| phase_relay(&e, addrs[0], 150 + (z % 200) as u32)).and_then(|_| phase_relay(&e, addrs[n_links - 1], 70)).and_then(|_| phase_relay_quiet(&e, addrs[n_links - 1], 100 + (z % 150) as u32)),
                Phase::Keepalive => phase_keepalive(&e, &addrs, 5500),
                Phase::Reload => {
                    let keep: Vec<u8> = addrs[..n_links - 1].to_vec();
                    phase_uplink(&e, 1000, 300, 300).and_then(|_| phase_reload(&e, &keep, addrs[n_links - 1], base + 30, 5000))
                }
                Phase::Control => {
                    let mut lines = Vec::new();
                    let mut runner = proptest::test_runner::TestRunner::new(proptest::test_runner::Config {
                        rng_seed: proptest::test_runner::RngSeed::Fixed(z),
                        rng_algorithm: proptest::test_runner::RngAlgorithm::ChaCha,
                        failure_persistence: None,
                        ..Default::default()
                    });
                    use proptest::strategy::{Strategy, ValueTree};
                    for _ in 0..400 {
                        if let Ok(t) = crate::props::c18::any_line_pub().new_tree(&mut runner) {
                            lines.push(t.current());
                        }
                    }
                    phase_control(&e, &lines)
                }
                Phase::Subscription => phase_subscription(&e, &addrs),
                Phase::ModeTicks => phase_mode_ticks(&e, &addrs, classic),
                Phase::WeakStats => phase_weak_stats(&e, &addrs),
                Phase::ReloadEarly => phase_reload_early(&e, &addrs[..n_links - 1], addrs[n_links - 1], base + 30),
                Phase::ReloadOutage => phase_uplink(&e, 1000, 100, 300).and_then(|_| phase_reload_outage(&e, &addrs, base + 30)),
                Phase::Handshake => phase_handshake(&e, &addrs, lost_reg1, (z >> 30) & 1 == 1),
                Phase::Recovery => phase_recovery(&e, &addrs, recovery_timeout, 8),
                Phase::RecoveryEligibility => phase_recovery(&e, &addrs, recovery_timeout, 4),
            };
            drop(e);
            let lag = probe.finish();
            if r.is_err() && lag > LAG_LIMIT_MS {
                notes.push(format!("scenario {k}: a failure was observed while this process's threads were woken up to {lag} ms late (machine overloaded); discarded as inconclusive: {}", r.as_ref().err().map(|v| v.msg.clone()).unwrap_or_default()));
                return None;
            }
            Some(r)
        };
        let r = match attempt(&mut notes) {
            None => {
                skipped += 1;
                continue;
            }
            Some(Ok(())) => Ok(()),
            Some(Err(first)) => {
                // real time is involved: a failure counts only if the same scenario fails again
                match attempt(&mut notes) {
                    Some(Err(second)) => Err(Violation { sig: second.sig, msg: format!("{} (reproduced; first run: {})", second.msg, first.msg) }),
                    None => {
                        skipped += 1;
                        continue;
                    }
                    _ => {
                        // one failure, one pass: a third identical run decides (two failures of three count)
                        match attempt(&mut notes) {
                            Some(Err(third)) => Err(Violation { sig: third.sig, msg: format!("{} (failed in two of three identical runs; first run: {})", third.msg, first.msg) }),
                            _ => {
                                notes.push(format!("scenario {k}: a failure did not reproduce in two further identical runs and was discarded as inconclusive: {}", first.msg));
                                Ok(())
                            }
                        }
                    }
                }
            }
        };
        done += 1;
        if let Err(v) = r {
            let case = json!({"e2e": format!("{phase:?}"), "scenario": k, "links": addrs, "classic": classic});
            if ctx.is_known(&v.sig).is_some() {
                ctx.print_known(&v.sig);
            } else if v.sig == "e2e-harness" {
                notes.push(format!("scenario {k}: harness problem: {}", v.msg));
            } else {
                ctx.extra(&format!("e2e-{phase:?}"), json!({"phase": format!("{phase:?}"), "scenarios_run": done, "skipped": skipped, "notes": notes}));
                ctx.report_violation("e2e", &v, case);
                return;
            }
        }
    }
    ctx.extra(&format!("e2e-{phase:?}"), json!({"engine": "real run_sender_with_config in real time against the cooperative receiver on loopback", "phase": format!("{phase:?}"), "scenarios_run": done, "skipped": skipped, "notes": notes}));
}

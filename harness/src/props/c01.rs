//! C01 — uplink path forwards every SRT datagram intact, once, in per-link order.
//! Generated event-loop interleavings + faults on the real shell; the oracle is
//! a wire-log monitor built on the per-link queue equation
//!     wire(op) ++ queue_after == queue_before ++ newly_routed(op)
//! which yields no-invention, no-corruption, per-link order, at-most-one unique
//! copy, probe accounting, the hold bound and loss accounting.

use proptest::collection::vec;
use proptest::prelude::*;
use serde::{Deserialize, Serialize};
use serde_json::json;
use srtla_core::connection::LinkPhase;
use srtla_core::connection::batch_send::BatchRegime;
use srtla_core::{ConfigSnapshot, SchedulingMode};

use crate::engine::selstate::{CEILINGS, THRESHOLDS, TIMEOUTS};
use crate::engine::shell::Shell;
use crate::rt::{CheckResult, Ctx, Obs, idx};

const LENS: &[u16] = &[1, 2, 3, 4, 7, 8, 15, 16, 20, 188, 1315, 1316, 1317, 1499, 1500];

#[derive(Debug, Clone, Hash, Serialize, Deserialize)]
pub enum Up {
    Reg3,
    Control,
    Echo(u16),
    SrtlaAckHeld(u8),
    NakHeld(u8),
    SrtAck,
}

#[derive(Debug, Clone, Hash, Serialize, Deserialize)]
pub enum Op {
    /// kind 0 data / 1 retransmit-flagged / 2 control; len selector; seq selector; burst
    Client(u8, u16, u16, u8),
    Up(u16, Up),
    Flush,
    Housekeeping,
    Advance(u32),
    Regime(u16, u8),
    BreakSocket(u16),
    Guard(bool),
    Mode(bool),
    Critical(u16),
    /// The link's window is used up: NAKs (production calls on the connection) take the window to its floor, then
    /// as many packets as the window admits are outstanding on it. true = every link, false = the selected one.
    Exhaust(u16, bool),
}

#[derive(Debug, Clone, Hash, Serialize, Deserialize)]
pub struct Case {
    pub n_links: u8,
    /// bitmask of links that complete REG3 at start (forced non-empty)
    pub up_mask: u8,
    pub classic: bool,
    pub guard: bool,
    pub threshold: u8,
    pub ceiling: u8,
    pub timeout: u8,
    pub ops: Vec<Op>,
}

fn adv() -> impl Strategy<Value = u32> {
    prop_oneof![
        6 => proptest::sample::select(vec![0u32, 1, 5, 14, 15, 16, 30, 100, 250, 251, 999, 1000, 1001, 2999, 3000, 3001, 5000, 5001]),
        3 => 0u32..60,
        1 => 0u32..20_000,
    ]
}

pub fn strategy(max_ops: usize) -> impl Strategy<Value = Case> {
    let up = prop_oneof![
        1 => Just(Up::Reg3),
        4 => Just(Up::Control),
        3 => prop_oneof![1u16..600, Just(0u16)].prop_map(Up::Echo),
        6 => (1u8..14).prop_map(Up::SrtlaAckHeld),
        2 => (1u8..6).prop_map(Up::NakHeld),
        3 => Just(Up::SrtAck),
    ];
    let op = prop_oneof![
        24 => (
            prop_oneof![6 => Just(0u8), 2 => Just(1u8), 2 => Just(2u8)],
            prop_oneof![3 => 0u16..LENS.len() as u16, 2 => 100u16..1600],
            any::<u16>(),
            prop_oneof![4 => Just(1u8), 3 => 2u8..20, 2 => 20u8..90]
        )
            .prop_map(|(k, l, s, b)| Op::Client(k, l, s, b)),
        14 => (any::<u16>(), up).prop_map(|(l, u)| Op::Up(l, u)),
        8 => Just(Op::Flush),
        3 => Just(Op::Housekeeping),
        10 => adv().prop_map(Op::Advance),
        2 => (any::<u16>(), 0u8..3).prop_map(|(l, r)| Op::Regime(l, r)),
        1 => any::<u16>().prop_map(Op::BreakSocket),
        1 => prop::bool::weighted(0.8).prop_map(Op::Guard),
        1 => any::<bool>().prop_map(Op::Mode),
        1 => prop_oneof![Just(1u16), 1u16..200].prop_map(Op::Critical),
        1 => (any::<u16>(), prop::bool::weighted(0.7)).prop_map(|(l, all)| Op::Exhaust(l, all)),
    ];
    (
        1u8..=4,
        any::<u8>(),
        any::<bool>(),
        prop::bool::weighted(0.8),
        0u8..THRESHOLDS.len() as u8,
        0u8..CEILINGS.len() as u8,
        0u8..TIMEOUTS.len() as u8,
        (prop::bool::weighted(0.4), vec(op, 1..max_ops)).prop_map(|(faults, mut ops)| {
            if !faults {
                ops.retain(|o| !matches!(o, Op::BreakSocket(_)));
                if ops.is_empty() {
                    ops.push(Op::Flush);
                }
            }
            ops
        }),
    )
        .prop_map(|(n_links, up_mask, classic, guard, threshold, ceiling, timeout, ops)| Case { n_links, up_mask, classic, guard, threshold, ceiling, timeout, ops })
}

fn prng(counter: u32, i: usize) -> u8 {
    let mut z = (counter as u64).wrapping_mul(0x9E3779B97F4A7C15).wrapping_add((i as u64 / 8).wrapping_mul(0xD1B54A32D192ED03));
    z = (z ^ (z >> 30)).wrapping_mul(0xBF58476D1CE4E5B9);
    z = (z ^ (z >> 27)).wrapping_mul(0x94D049BB133111EB);
    z ^= z >> 31;
    (z >> ((i % 8) * 8)) as u8
}

/// A client datagram of `len` bytes; payload is a PRNG of the per-packet counter
/// so corruption or a cross-packet mix-up is visible.
fn client_datagram(kind: u8, len: usize, seq: u32, counter: u32) -> Vec<u8> {
    let mut p: Vec<u8> = (0..len).map(|i| prng(counter, i)).collect();
    let seqb = (seq & 0x7fff_ffff).to_be_bytes();
    match kind {
        2 => {
            // SRT control packet: top bit set, type 0..7 (never an SRTLA type)
            p[0] = 0x80;
            if len > 1 {
                p[1] = (counter % 8) as u8;
            }
        }
        _ => {
            for i in 0..len.min(4) {
                p[i] = seqb[i];
            }
            if len > 4 {
                p[4] = (p[4] & !0x04) | if kind == 1 { 0x04 } else { 0 };
            }
        }
    }
    p
}

fn is_internal(b: &[u8]) -> bool {
    b.len() >= 2 && (b[0] == 0x90 || b[0] == 0x91 || b[0] == 0x92)
}

pub fn check(case: &Case, obs: &mut Obs) -> CheckResult {
    let n = case.n_links as usize;
    let addrs: Vec<u8> = (0..n as u8).collect();
    let cfg = ConfigSnapshot {
        mode: if case.classic { SchedulingMode::Classic } else { SchedulingMode::Enhanced },
        quality_enabled: true,
        stall_deselect: case.guard,
        stall_min_in_flight: THRESHOLDS[case.threshold as usize % THRESHOLDS.len()],
        stall_ack_stale_ms: CEILINGS[case.ceiling as usize % CEILINGS.len()],
        conn_timeout_ms: TIMEOUTS[case.timeout as usize % TIMEOUTS.len()],
    };
    let mut sh = Shell::new(&addrs, cfg);
    let mut mask = case.up_mask & ((1u16 << n) - 1) as u8;
    if mask == 0 {
        mask = 1;
    }
    for i in 0..n {
        if mask & (1 << i) != 0 {
            sh.deliver_reg3(i);
        }
    }
    let _ = sh.drain_wire();
    let _ = sh.drain_client();
    // the harness's own registration record: a REG3 was delivered to the link and it has not been seen torn down
    // since (the link's own phase is not consulted for the verdict)
    let mut registered: Vec<bool> = (0..n).map(|i| mask & (1 << i) != 0).collect();

    let mut counter: u32 = 0;
    let mut next_seq: u32 = 1;
    let mut exhaust_round: i32 = 0;
    let mut broken = vec![false; n];
    let mut routed_while_gated = vec![0u64; n];
    let mut probes = vec![0u64; n];
    let mut unique_links: Vec<bool> = vec![false; n];
    let mut threshold_flushes = 0u64;
    let mut timer_flushes = 0u64;
    let mut accepted = 0u64;
    let mut on_wire = 0u64;
    let mut lost_allowed = 0u64;

    // the queue equation, applied after every primitive step
    // `new`: datagrams newly routed per link in this step; `reset_ok`: links allowed to lose their queue
    let step = |sh: &mut Shell,
                    before: &[Vec<Vec<u8>>],
                    new: &[Vec<Vec<u8>>],
                    reset_ok: &[bool],
                    what: &str,
                    obs: &mut Obs,
                    on_wire: &mut u64,
                    lost_allowed: &mut u64|
     -> Result<Vec<usize>, crate::rt::Violation> {
        let wire = sh.drain_wire();
        let mut flushed_links = Vec::new();
        for i in 0..sh.st.conns.len() {
            let a = sh.addr_of(i);
            let w: Vec<&Vec<u8>> = wire.iter().filter(|e| e.addr == a && !is_internal(&e.bytes)).map(|e| &e.bytes).collect();
            let after: Vec<Vec<u8>> = sh.st.conns[i].batch_sender.verif_queue_snapshot().into_iter().map(|x| x.0).collect();
            vensure!(after.len() <= 32, "hold-bound", "{what}: link {i} holds {} datagrams (> 32)", after.len());
            let mut expect: Vec<&Vec<u8>> = before[i].iter().collect();
            expect.extend(new[i].iter());
            let mut got: Vec<&Vec<u8>> = w.clone();
            got.extend(after.iter());
            if !w.is_empty() {
                flushed_links.push(i);
            }
            *on_wire += w.len() as u64;
            if got == expect {
                continue;
            }
            // not equal: the only excuse is a link that failed / re-registered and lost its queue
            if reset_ok[i] && after.is_empty() && expect.len() >= w.len() && expect[..w.len()] == w[..] {
                *lost_allowed += (expect.len() - w.len()) as u64;
                obs.class("queue-lost-on-failed-or-reregistered-link");
                continue;
            }
            // classify the mismatch
            let sig = if got.len() < expect.len() && expect.starts_with(&got[..]) || (got.len() < expect.len()) {
                "datagram-dropped"
            } else if got.len() > expect.len() {
                "datagram-invented-or-duplicated"
            } else {
                let mut g2: Vec<&Vec<u8>> = got.clone();
                let mut e2: Vec<&Vec<u8>> = expect.clone();
                g2.sort();
                e2.sort();
                if g2 == e2 { "datagram-reordered" } else { "datagram-corrupted" }
            };
            return crate::rt::viol(
                sig,
                format!(
                    "{what}: link {i}: wire({}) ++ queue({}) != queue_before({}) ++ routed({}); first differing position {:?}",
                    w.len(),
                    after.len(),
                    before[i].len(),
                    new[i].len(),
                    got.iter().zip(expect.iter()).position(|(a, b)| a != b)
                ),
            );
        }
        Ok(flushed_links)
    };

    let sock_id = |sh: &Shell, i: usize| -> usize {
        sh.st.conn_io.get(&sh.st.conns[i].conn_id).map(|io| std::sync::Arc::as_ptr(&io.socket) as usize).unwrap_or(0)
    };
    let snapshot = |sh: &Shell| -> Vec<Vec<Vec<u8>>> { sh.st.conns.iter().map(|c| c.batch_sender.verif_queue_snapshot().into_iter().map(|x| x.0).collect()).collect() };
    let empty_new = |n: usize| -> Vec<Vec<Vec<u8>>> { vec![Vec::new(); n] };

    for (oi, op) in case.ops.iter().enumerate() {
        let what = format!("op {oi} {:?}", op);
        // a link seen torn down (send failure, timeout) is no longer registered
        for i in 0..n {
            if !sh.st.conns[i].connected {
                registered[i] = false;
            }
        }
        match op {
            Op::Advance(d) => sh.advance(*d as u64),
            Op::Guard(b) => sh.st.cfg.stall_deselect = *b,
            Op::Mode(b) => sh.st.cfg.mode = if *b { SchedulingMode::Classic } else { SchedulingMode::Enhanced },
            Op::Critical(ms) => {
                let dl = sh.now() + *ms as u64;
                sh.st.critical.extend_to(dl);
            }
            Op::Regime(l, r) => {
                let li = idx(*l, n);
                let reg = match r {
                    0 => BatchRegime::LowActivity,
                    1 => BatchRegime::Normal,
                    _ => BatchRegime::HighLoad,
                };
                if sh.st.conns[li].batch_sender.queued_count() > 0 {
                    obs.class("regime-change-with-nonempty-queue");
                }
                sh.st.conns[li].batch_sender.set_regime(reg);
            }
            Op::Exhaust(l, all) => {
                let now = sh.now();
                exhaust_round += 1;
                for li in 0..n {
                    if !*all && li != idx(*l, n) {
                        continue;
                    }
                    let c = &mut sh.st.conns[li];
                    if !c.connected {
                        continue;
                    }
                    // far away from the sequence numbers the client datagrams use
                    let base = 0x3000_0000 + exhaust_round * 0x10000 + li as i32 * 0x4000;
                    let mut k = 0;
                    while c.window > 1000 && k < 800 {
                        c.register_packet(base + k, now);
                        c.handle_nak(base + k, now);
                        k += 1;
                    }
                    let want = c.window / 1000 * 1000;
                    while c.in_flight_packets < want && k < 3000 {
                        c.register_packet(base + k, now);
                        k += 1;
                    }
                    if c.get_score() == 0 {
                        obs.class("link-with-its-window-used-up");
                    }
                }
            }
            Op::BreakSocket(l) => {
                let li = idx(*l, n);
                if sh.break_socket(li) {
                    broken[li] = true;
                    obs.class("send-failure-injected");
                }
            }
            Op::Flush => {
                let before = snapshot(&sh);
                let had: Vec<bool> = before.iter().map(|q| !q.is_empty()).collect();
                sh.flush_tick();
                let reset_ok: Vec<bool> = (0..n).map(|i| broken[i]).collect();
                let fl = step(&mut sh, &before, &empty_new(n), &reset_ok, &what, obs, &mut on_wire, &mut lost_allowed)?;
                timer_flushes += fl.len() as u64;
                for i in 0..n {
                    let has_io = sh.st.conn_io.contains_key(&sh.st.conns[i].conn_id);
                    let depth = sh.st.conns[i].batch_sender.queued_count();
                    vensure!(!has_io || depth == 0, "flush-tick-left-queue", "{what}: link {i} still holds {depth} datagrams after a flush tick (had {})", had[i]);
                }
            }
            Op::Housekeeping => {
                let before = snapshot(&sh);
                let socks_before: Vec<usize> = (0..n).map(|i| sock_id(&sh, i)).collect();
                sh.housekeeping();
                for i in 0..n {
                    // a reconnect replaces the socket: the injected failure is gone
                    if sock_id(&sh, i) != socks_before[i] {
                        broken[i] = false;
                        obs.class("link-reconnected-by-housekeeping");
                        if !before[i].is_empty() {
                            obs.class("reconnect-with-nonempty-queue");
                        }
                    }
                }
                // a link torn down (timeout -> reconnect) in this tick may lose its queue
                let reset_ok: Vec<bool> = (0..n).map(|i| matches!(sh.st.conns[i].phase, LinkPhase::Registering) || broken[i] || sock_id(&sh, i) != socks_before[i]).collect();
                step(&mut sh, &before, &empty_new(n), &reset_ok, &what, obs, &mut on_wire, &mut lost_allowed)?;
            }
            Op::Up(l, u) => {
                let li = idx(*l, n);
                if broken[li] {
                    continue; // a dead socket hears nothing
                }
                let now = sh.now();
                let bytes: Vec<u8> = match u {
                    Up::Reg3 => vec![0x92, 0x02],
                    Up::Control => vec![0x80, 0x06, 0, 0, 0, 0, 0, 0, 0, 0, 0, 0, 0, 0, 0, 0],
                    Up::Echo(age) => {
                        let c = &mut sh.st.conns[li];
                        let sent_at = now.saturating_sub(*age as u64);
                        if c.connected && !c.rtt.waiting_for_keepalive_response {
                            c.rtt.record_keepalive_sent(sent_at);
                        }
                        srtla_protocol::create_keepalive_packet(sent_at).to_vec()
                    }
                    Up::SrtlaAckHeld(k) | Up::NakHeld(k) => {
                        let mut seqs: Vec<i32> = sh.st.conns[li].packet_log.keys().copied().collect();
                        seqs.sort();
                        seqs.truncate(*k as usize);
                        let mut p = if matches!(u, Up::SrtlaAckHeld(_)) { vec![0x91, 0x00, 0, 0] } else { vec![0x80, 0x03, 0, 0] };
                        for s in &seqs {
                            p.extend_from_slice(&(*s as u32).to_be_bytes());
                        }
                        if seqs.is_empty() {
                            p.extend_from_slice(&0x7fff_fff0u32.to_be_bytes());
                        }
                        p
                    }
                    Up::SrtAck => {
                        let mut p = vec![0u8; 44];
                        p[0] = 0x80;
                        p[1] = 0x02;
                        p[16..20].copy_from_slice(&next_seq.saturating_sub(20).to_be_bytes());
                        p
                    }
                };
                let before = snapshot(&sh);
                sh.uplink_pkt(li, &bytes);
                let mut reset_ok = vec![false; n];
                if matches!(u, Up::Reg3) {
                    registered[li] = true;
                    reset_ok[li] = true; // re-registration clears the queue
                    if !before[li].is_empty() {
                        obs.class("reg3-with-nonempty-queue");
                    }
                }
                step(&mut sh, &before, &empty_new(n), &reset_ok, &what, obs, &mut on_wire, &mut lost_allowed)?;
            }
            Op::Client(kind, lsel, ssel, burst) => {
                for _ in 0..*burst {
                    counter += 1;
                    let len = if (*lsel as usize) < LENS.len() { LENS[*lsel as usize] as usize } else { (*lsel as usize).clamp(1, 1500) };
                    let seq = match ssel % 8 {
                        0 => 0,
                        1 => 0x7fff_ffff,
                        2 => *ssel as u32,
                        3 => next_seq.saturating_sub((*ssel as u32 >> 3) % 50), // a repeat
                        _ => {
                            next_seq += 1;
                            next_seq
                        }
                    };
                    let pkt = client_datagram(*kind, len, seq, counter);
                    let tracked = pkt.len() >= 4 && pkt[0] & 0x80 == 0;
                    let now = sh.now();
                    let timeout = sh.st.cfg.conn_timeout_ms;
                    let usable_any = (0..n).any(|i| {
                        let c = &sh.st.conns[i];
                        registered[i] && c.connected && c.last_received.is_some_and(|lr| now.saturating_sub(lr) < timeout)
                    });
                    let before = snapshot(&sh);
                    let conn_before: Vec<bool> = sh.st.conns.iter().map(|c| c.connected).collect();
                    sh.client_pkt(&pkt);
                    // where did copies go? (queue grew by this datagram at the tail, or the wire carries it after the old queue)
                    let wire_peek = sh.drain_wire();
                    let mut new: Vec<Vec<Vec<u8>>> = vec![Vec::new(); n];
                    let mut copies = 0usize;
                    let mut torn: Vec<bool> = vec![false; n];
                    for i in 0..n {
                        let a = sh.addr_of(i);
                        let c = &sh.st.conns[i];
                        let w: Vec<&Vec<u8>> = wire_peek.iter().filter(|e| e.addr == a && !is_internal(&e.bytes)).map(|e| &e.bytes).collect();
                        let after = c.batch_sender.verif_queue_snapshot();
                        let total = w.len() + after.len();
                        torn[i] = conn_before[i] && !c.connected && matches!(c.phase, LinkPhase::Registering);
                        if total == before[i].len() + 1 {
                            // one datagram was added to this link; it must be ours (checked by the equation below)
                            new[i].push(pkt.clone());
                            copies += 1;
                        } else if torn[i] {
                            // a failed threshold flush tore the link down: the datagram (if routed here) went with the queue
                        }
                    }
                    // re-inject the peeked wire events for the equation: emulate by checking here directly
                    let mut flushed_any = Vec::new();
                    for i in 0..n {
                        let a = sh.addr_of(i);
                        let w: Vec<&Vec<u8>> = wire_peek.iter().filter(|e| e.addr == a && !is_internal(&e.bytes)).map(|e| &e.bytes).collect();
                        let after: Vec<Vec<u8>> = sh.st.conns[i].batch_sender.verif_queue_snapshot().into_iter().map(|x| x.0).collect();
                        vensure!(after.len() <= 32, "hold-bound", "{what}: link {i} holds {} datagrams (> 32)", after.len());
                        let mut expect: Vec<&Vec<u8>> = before[i].iter().collect();
                        expect.extend(new[i].iter());
                        let mut got: Vec<&Vec<u8>> = w.clone();
                        got.extend(after.iter());
                        on_wire += w.len() as u64;
                        if !w.is_empty() {
                            flushed_any.push(i);
                        }
                        if got == expect {
                            continue;
                        }
                        if (torn[i] || broken[i]) && after.is_empty() && expect.len() >= w.len() && expect[..w.len()] == w[..] {
                            lost_allowed += (expect.len() - w.len()) as u64;
                            obs.class("queue-lost-on-failed-or-reregistered-link");
                            if torn[i] {
                                broken[i] = true; // socket still dead until housekeeping reconnects
                            }
                            continue;
                        }
                        let sig = if got.len() < expect.len() {
                            "datagram-dropped"
                        } else if got.len() > expect.len() {
                            "datagram-invented-or-duplicated"
                        } else {
                            let mut g2 = got.clone();
                            let mut e2 = expect.clone();
                            g2.sort();
                            e2.sort();
                            if g2 == e2 { "datagram-reordered" } else { "datagram-corrupted" }
                        };
                        return crate::rt::viol(sig, format!("{what}: link {i}: wire({}) ++ queue({}) != queue_before({}) ++ routed({})", w.len(), after.len(), before[i].len(), new[i].len()));
                    }
                    threshold_flushes += flushed_any.len() as u64;
                    // unique copy + probes
                    let lost_with_torn_link = torn.iter().any(|t| *t);
                    if copies == 0 && !lost_with_torn_link {
                        vensure!(!usable_any, "refused-with-usable-link", "{what}: client datagram refused although a usable uplink exists");
                        obs.class("refused-no-usable-link");
                    } else {
                        accepted += 1;
                    }
                    if copies >= 1 {
                        let holders: Vec<usize> = (0..n).filter(|i| !new[*i].is_empty()).collect();
                        let ungated: Vec<usize> = holders.iter().copied().filter(|i| !sh.st.conns[*i].is_stall_gated()).collect();
                        vensure!(ungated.len() <= 1, "two-unique-copies", "{what}: datagram routed to {} non-gated links {:?}", ungated.len(), ungated);
                        let unique = ungated.first().copied().or(holders.first().copied());
                        for h in &holders {
                            if Some(*h) == unique {
                                unique_links[*h] = true;
                                continue;
                            }
                            // an extra copy: only a counted duplicate probe on a stall-gated link
                            vensure!(tracked, "probe-of-untracked", "{what}: control/short datagram duplicated onto link {h}");
                            probes[*h] += 1;
                            obs.class("probe-duplicate-seen");
                        }
                        if tracked {
                            for i in 0..n {
                                if Some(i) != unique && sh.st.conns[i].is_stall_gated() && sh.st.conns[i].connected {
                                    routed_while_gated[i] += 1;
                                }
                            }
                        }
                        for i in 0..n {
                            let allowed = routed_while_gated[i].div_ceil(100);
                            vensure!(probes[i] <= allowed, "too-many-probes", "{what}: link {i} got {} duplicate probes for {} data packets routed while it was gated", probes[i], routed_while_gated[i]);
                        }
                    }
                }
            }
        }
        let _ = sh.drain_client();
    }
    let links_with_unique = unique_links.iter().filter(|x| **x).count();
    if links_with_unique >= 2 {
        obs.class("unique-copies-on-2+-links");
    }
    if threshold_flushes > 0 {
        obs.class("threshold-flush");
    }
    if timer_flushes > 0 {
        obs.class("timer-flush");
    }
    obs.count("client-datagrams-accepted", accepted);
    obs.count("datagrams-on-wire", on_wire);
    obs.count("lost-on-failed-or-reregistered-link", lost_allowed);
    obs.nontrivial = links_with_unique >= 2 && threshold_flushes > 0 && timer_flushes > 0;
    if obs.nontrivial {
        obs.sample = Some(json!({"links": n, "up_mask": mask, "classic": case.classic, "guard": case.guard, "n_ops": case.ops.len(), "accepted": accepted, "on_wire": on_wire,
            "first_ops": format!("{:?}", &case.ops[..case.ops.len().min(8)])}));
    }
    Ok(())
}

// ------------------------------------------------------------- short-send tier

/// Kernel short sends: the uplink socket is one end of an AF_UNIX datagram pair
/// with a minimal send buffer, drained by a helper thread, so `sendmmsg` accepts
/// fewer datagrams than offered (or none) in the middle of a batch.
#[derive(Debug, Clone, Hash, Serialize, Deserialize)]
pub struct ShortCase {
    pub regime: u8,
    /// (datagrams in the burst, length selector, flush tick after the burst)
    pub bursts: Vec<(u8, u16, bool)>,
    /// the peer end of the uplink socket is closed after this burst: every later send is refused by the kernel
    /// (ECONNREFUSED - what a UDP uplink sees after an ICMP port-unreachable)
    #[serde(default)]
    pub peer_gone_after: Option<u8>,
}

fn short_strategy() -> impl Strategy<Value = ShortCase> {
    (0u8..3, vec((prop_oneof![1u8..8, 8u8..40, 40u8..100], prop_oneof![Just(9u16), Just(11), 100u16..1500], prop::bool::weighted(0.8)), 1..8), prop::option::weighted(0.3, 0u8..6))
        .prop_map(|(regime, bursts, peer_gone_after)| ShortCase { regime, bursts, peer_gone_after })
}

pub fn check_short(case: &ShortCase, obs: &mut Obs) -> CheckResult {
    use std::sync::atomic::{AtomicBool, Ordering};
    use std::sync::{Arc, Mutex};
    let mut sh = Shell::new(&[0], ConfigSnapshot::default());
    sh.establish_all();
    let (a, b) = match socket2::Socket::pair(socket2::Domain::UNIX, socket2::Type::DGRAM, None) {
        Ok(p) => p,
        Err(_) => return Ok(()),
    };
    let _ = a.set_nonblocking(true);
    let _ = a.set_send_buffer_size(1);
    let _ = b.set_recv_buffer_size(1);
    let _ = b.set_read_timeout(Some(std::time::Duration::from_millis(20)));
    let cid = sh.st.conns[0].conn_id;
    {
        let _g = sh.rt.enter();
        let sock = match srtla_send::net::BatchUdpSocket::new(a) {
            Ok(s) => s,
            Err(_) => return Ok(()),
        };
        sh.st.conn_io.get_mut(&cid).unwrap().socket = Arc::new(sock);
    }
    sh.st.conns[0].batch_sender.set_regime(match case.regime {
        0 => BatchRegime::LowActivity,
        1 => BatchRegime::Normal,
        _ => BatchRegime::HighLoad,
    });
    let received: Arc<Mutex<Vec<Vec<u8>>>> = Arc::new(Mutex::new(Vec::new()));
    let stop = Arc::new(AtomicBool::new(false));
    let drainer = {
        let received = received.clone();
        let stop = stop.clone();
        let b2 = b.try_clone().expect("clone");
        std::thread::spawn(move || {
            let mut buf = [std::mem::MaybeUninit::<u8>::uninit(); 2048];
            while !stop.load(Ordering::Acquire) {
                if let Ok(n) = b2.recv(&mut buf) {
                    let v: Vec<u8> = buf[..n].iter().map(|x| unsafe { x.assume_init() }).collect();
                    received.lock().unwrap().push(v);
                }
            }
        })
    };
    let mut sent: Vec<Vec<u8>> = Vec::new();
    let mut counter = 0u32;
    let mut torn = false;
    let mut b = Some(b);
    let mut drainer = Some(drainer);
    let mut got_before_close: Vec<Vec<u8>> = Vec::new();
    let mut accepted_after_close = 0u32;
    for (bi, (n, lsel, tick)) in case.bursts.iter().enumerate() {
        if case.peer_gone_after.is_some_and(|k| k as usize + 1 == bi) && b.is_some() && !torn {
            // the peer goes away: collect what has arrived, then close every descriptor of its end
            stop.store(true, std::sync::atomic::Ordering::Release);
            if let Some(d) = drainer.take() {
                let _ = d.join();
            }
            let bb = b.take().unwrap();
            let _ = bb.set_nonblocking(true);
            let mut buf = [std::mem::MaybeUninit::<u8>::uninit(); 2048];
            got_before_close = received.lock().unwrap().clone();
            while let Ok(n) = bb.recv(&mut buf) {
                got_before_close.push(buf[..n].iter().map(|x| unsafe { x.assume_init() }).collect());
            }
            drop(bb);
            obs.class("peer-of-the-uplink-socket-closed");
        }
        for _ in 0..*n {
            if b.is_none() && sh.st.conns[0].connected {
                accepted_after_close += 1;
            }
            counter += 1;
            let len = (*lsel as usize).clamp(9, 1500);
            let pkt = client_datagram(0, len, counter, counter);
            sh.client_pkt(&pkt);
            sent.push(pkt);
            // keep the link live and its in-flight bounded
            if counter % 16 == 0 {
                let mut p = vec![0u8; 44];
                p[0] = 0x80;
                p[1] = 0x02;
                p[16..20].copy_from_slice(&counter.to_be_bytes());
                sh.uplink_pkt(0, &p);
            }
            if !sh.st.conns[0].connected {
                torn = true;
            }
        }
        if *tick {
            sh.advance(15);
            sh.flush_tick();
        }
        sh.advance(3);
        let _ = sh.drain_client();
    }
    sh.advance(15);
    sh.flush_tick();
    if !sh.st.conns[0].connected {
        torn = true;
    }
    if b.is_none() {
        // the peer was closed: everything sent afterwards was refused by the kernel, so the link must have failed
        // (a send error tears it down); what arrived before is an ordered subsequence of what was accepted
        let mut it = sent.iter();
        for g in &got_before_close {
            vensure!(it.any(|s| s == g), "datagram-invented-or-duplicated", "short-send tier: received a datagram out of order / not accepted");
        }
        if accepted_after_close > 0 {
            obs.nontrivial = true;
            obs.sample = Some(json!({"regime": case.regime, "bursts": case.bursts, "peer_gone_after": case.peer_gone_after}));
            vensure!(
                torn,
                "refused-send-reported-as-sent",
                "short-send tier: the peer of the uplink socket was closed after burst {:?}; {} datagrams were accepted and flushed afterwards, every send was refused by the kernel (ECONNREFUSED), yet the link is still connected and holds {} queued - the datagrams are gone on an uplink that did not fail",
                case.peer_gone_after,
                accepted_after_close,
                sh.st.conns[0].batch_sender.queued_count()
            );
        }
        return Ok(());
    }
    let b = b.unwrap();
    stop.store(true, std::sync::atomic::Ordering::Release);
    if let Some(d) = drainer.take() {
        let _ = d.join();
    }
    // whatever is still in the kernel queue
    let _ = b.set_nonblocking(true);
    let mut buf = [std::mem::MaybeUninit::<u8>::uninit(); 2048];
    let mut got = received.lock().unwrap().clone();
    while let Ok(n) = b.recv(&mut buf) {
        got.push(buf[..n].iter().map(|x| unsafe { x.assume_init() }).collect());
    }
    if torn {
        obs.class("link-torn-down-by-send-error");
        // what arrived must still be a prefix-ordered subsequence of what was accepted
        let mut it = sent.iter();
        for g in &got {
            vensure!(it.any(|s| s == g), "datagram-invented-or-duplicated", "short-send tier: received a datagram out of order / not accepted");
        }
        return Ok(());
    }
    obs.count("datagrams", sent.len() as u64);
    if got.len() < sent.len() {
        return crate::rt::viol("datagram-dropped-on-short-send", format!("short-send tier: {} of {} accepted datagrams reached the peer of a healthy uplink (regime {}, bursts {:?})", got.len(), sent.len(), case.regime, case.bursts));
    }
    vensure!(got == sent, if got.len() > sent.len() { "datagram-invented-or-duplicated" } else { "datagram-reordered" }, "short-send tier: received sequence differs from the accepted sequence ({} vs {})", got.len(), sent.len());
    obs.nontrivial = case.bursts.iter().any(|b| b.0 >= 12);
    if obs.nontrivial {
        obs.sample = Some(json!({"regime": case.regime, "bursts": case.bursts, "datagrams": sent.len()}));
    }
    Ok(())
}

pub fn run(ctx: &Ctx) -> &'static str {
    ctx.assume("client datagrams are SRT data or control packets of 1..1500 bytes (never SRTLA type bytes 0x90/0x91/0x92); a 0-byte datagram is out of the stated domain");
    ctx.assume("loopback delivery is synchronous: the harness receiver (4 MiB buffer) is drained after every step, so it cannot drop by itself");
    ctx.assume("a link 'failed' = a send failure was injected on its current socket (EPIPE via shutdown(SHUT_WR)) or it was torn down in this step; 're-registered' = REG3 delivered / housekeeping reconnect in this step");
    for (file, body) in ctx.replay_files() {
        if !(ctx.replay_case::<Case, _>("event-loop", &file, &body, check) || ctx.replay_case::<ShortCase, _>("short-send", &file, &body, check_short)) {
            eprintln!("replay {}: unknown part", file.display());
        }
    }
    if ctx.replay.is_some() {
        return "exploration";
    }
    let mo = ctx.tier.pick(120, 400);
    ctx.explore(
        "event-loop",
        "generated interleavings of the event loop's arms on the real shell (client datagrams of all kinds/lengths/sequence numbers incl. repeats and bursts, real uplink packets, 15 ms flush ticks, housekeeping, clock steps) with 1..4 uplinks of which a non-empty subset is registered, both modes, guard on/off, all batch regimes, send failures and re-registration; per-link queue equation after every step; non-trivial = unique copies on >= 2 links and >= 1 threshold flush and >= 1 timer flush",
        ctx.tier.pick(16_000, 200_000),
        || strategy(mo),
        |_| check,
    );
    ctx.explore(
        "short-send",
        "one uplink whose socket is an AF_UNIX datagram pair with a minimal send buffer drained by a helper thread, so sendmmsg accepts fewer datagrams than offered in the middle of a batch (all regimes, bursts of 1..99 datagrams): every accepted datagram must reach the peer exactly once, in order; non-trivial = a burst of >= 12 datagrams",
        ctx.tier.pick(300, 6_000),
        short_strategy,
        |_| check_short,
    );
    // the real event loop (listener buffer, select! arms, timers): one scenario on every change, more in thorough
    crate::props::e2e::run(ctx, crate::props::e2e::Phase::Uplink, ctx.tier.pick(1, 6));
    "exploration"
}

//! Decision tier shared by C03 (shell tier) and C04 (a): every client datagram
//! goes through the real `handle_srt_packet` on a real shell whose link states
//! were produced by real packets (`handle_uplink_packet`), real housekeeping
//! and the stamping writes of the housekeeping arm. The link that received the
//! unique copy is read off the queues / the wire.

use proptest::collection::vec;
use proptest::prelude::*;
use serde::{Deserialize, Serialize};
use serde_json::json;
use srtla_core::connection::LinkPhase;
use srtla_core::{ConfigSnapshot, SchedulingMode};

use crate::engine::selstate::{BITRATES, CEILINGS, TARGETS, THRESHOLDS, TIMEOUTS};
use crate::engine::shell::Shell;
use crate::rt::{CheckResult, Ctx, Obs, idx};

#[derive(Debug, Clone, Hash, Serialize, Deserialize)]
pub enum Up {
    RegErr,
    Reg3,
    Ngp,
    Control,
    Echo(u16),
    SrtlaAckHeld(u8),
    NakHeld(u8),
    SrtAckAll,
}

#[derive(Debug, Clone, Hash, Serialize, Deserialize)]
pub enum Op {
    /// kind: 0 data, 1 retransmit-flagged data, 2 control
    Client(u8, u8),
    Critical(u16),
    Up(u16, Up),
    Flush,
    Housekeeping,
    Advance(u32),
    Weak(u16, bool),
    LossDeg(u16, bool),
    CcTarget(u16, u8),
    Bitrate(u16, u8),
    Mode(bool),
    Quality(bool),
    Guard(bool),
    Threshold(u8),
    Ceiling(u8),
    Timeout(u8),
    /// a reload through the real apply_connection_changes: bit k of the mask lists address k (one more address
    /// than the case starts with); an empty selection is skipped
    Reload(u8),
}

#[derive(Debug, Clone, Hash, Serialize, Deserialize)]
pub struct Case {
    pub n_links: u8,
    pub classic: bool,
    pub quality: bool,
    pub guard: bool,
    pub threshold: u8,
    pub ceiling: u8,
    pub timeout: u8,
    pub ops: Vec<Op>,
}

#[derive(Clone, Copy, PartialEq, Eq)]
pub enum Which {
    C03,
    C04,
    /// C05 on real routing: whenever the real handle_srt_packet made a probe duplicate, the datagram is
    /// flushed and NAKed at once; the charge must go to the link that carried the unique copy
    C05,
    /// C11 on the real glue: the link a plain data datagram lands on equals the scheduler's answer for the anchor the
    /// glue is supposed to pass (its previous choice; none after a reload removed a link)
    C11,
    /// C12 on the real glue: with the guard off every stall flag is cleared by every client datagram, whatever its kind
    C12,
    /// C02 on real routing: a datagram the real send_stall_probes duplicated onto a gated link is in flight on both
    /// links once both have flushed (every transmitted, unretired sequence number counts - probe copies too)
    C02,
}

fn adv() -> impl Strategy<Value = u32> {
    prop_oneof![
        6 => proptest::sample::select(vec![0u32, 1, 15, 49, 50, 51, 250, 251, 999, 1000, 1001, 2499, 2500, 2501, 2999, 3000, 3001, 4999, 5000, 5001, 6000, 14_999, 15_000, 15_001, 30_001]),
        3 => 0u32..300,
        1 => 0u32..70_000,
    ]
}

fn op() -> impl Strategy<Value = Op> {
    let up = prop_oneof![
        2 => Just(Up::RegErr),
        2 => Just(Up::Reg3),
        1 => Just(Up::Ngp),
        4 => Just(Up::Control),
        3 => prop_oneof![Just(0u16), 1u16..600, Just(10_001)].prop_map(Up::Echo),
        5 => (1u8..12).prop_map(Up::SrtlaAckHeld),
        3 => (1u8..8).prop_map(Up::NakHeld),
        2 => Just(Up::SrtAckAll),
    ];
    prop_oneof![
        16 => (prop_oneof![5 => Just(0u8), 3 => Just(1u8), 1 => Just(2u8)], prop_oneof![3 => Just(1u8), 2 => 2u8..12, 2 => 30u8..60]).prop_map(|(k, n)| Op::Client(k, n)),
        2 => prop_oneof![Just(0u16), Just(1), 1u16..500, Just(5000)].prop_map(Op::Critical),
        14 => (any::<u16>(), up).prop_map(|(l, u)| Op::Up(l, u)),
        5 => Just(Op::Flush),
        4 => Just(Op::Housekeeping),
        10 => adv().prop_map(Op::Advance),
        2 => (any::<u16>(), any::<bool>()).prop_map(|(l, b)| Op::Weak(l, b)),
        2 => (any::<u16>(), any::<bool>()).prop_map(|(l, b)| Op::LossDeg(l, b)),
        2 => (any::<u16>(), 0u8..TARGETS.len() as u8).prop_map(|(l, b)| Op::CcTarget(l, b)),
        2 => (any::<u16>(), 0u8..BITRATES.len() as u8).prop_map(|(l, b)| Op::Bitrate(l, b)),
        1 => any::<bool>().prop_map(Op::Mode),
        1 => any::<bool>().prop_map(Op::Quality),
        1 => prop::bool::weighted(0.75).prop_map(Op::Guard),
        1 => (0u8..THRESHOLDS.len() as u8).prop_map(Op::Threshold),
        1 => (0u8..CEILINGS.len() as u8).prop_map(Op::Ceiling),
        1 => (0u8..TIMEOUTS.len() as u8).prop_map(Op::Timeout),
        1 => (1u8..32).prop_map(Op::Reload),
    ]
}

pub fn strategy(max_ops: usize) -> impl Strategy<Value = Case> {
    (
        1u8..=4,
        any::<bool>(),
        prop::bool::weighted(0.7),
        prop::bool::weighted(0.85),
        0u8..THRESHOLDS.len() as u8,
        0u8..CEILINGS.len() as u8,
        0u8..TIMEOUTS.len() as u8,
        vec(op(), 1..max_ops),
    )
        .prop_map(|(n_links, classic, quality, guard, threshold, ceiling, timeout, ops)| Case { n_links, classic, quality, guard, threshold, ceiling, timeout, ops })
}

fn client_pkt(kind: u8, counter: u32) -> Vec<u8> {
    let mut p = vec![0u8; 16 + 24];
    match kind {
        2 => {
            p[0] = 0x80;
            p[1] = 0x06; // ACKACK-style control
        }
        _ => {
            p[0..4].copy_from_slice(&(counter & 0x7fff_ffff).to_be_bytes());
            p[4] = 0xc0 | if kind == 1 { 0x04 } else { 0 };
        }
    }
    // unique payload so the copy can be found on queues / the wire
    p[16..20].copy_from_slice(&counter.to_be_bytes());
    p[20..24].copy_from_slice(&(counter ^ 0xa5a5_a5a5).to_be_bytes());
    p
}

pub fn check(case: &Case, obs: &mut Obs, which: Which, ctx: &Ctx) -> CheckResult {
    let n = case.n_links as usize;
    let addrs: Vec<u8> = (0..n as u8).collect();
    let cfg = ConfigSnapshot {
        mode: if case.classic { SchedulingMode::Classic } else { SchedulingMode::Enhanced },
        quality_enabled: case.quality,
        stall_deselect: case.guard,
        stall_min_in_flight: THRESHOLDS[case.threshold as usize % THRESHOLDS.len()],
        stall_ack_stale_ms: CEILINGS[case.ceiling as usize % CEILINGS.len()],
        conn_timeout_ms: TIMEOUTS[case.timeout as usize % TIMEOUTS.len()],
    };
    let mut sh = Shell::new(&addrs, cfg);
    sh.establish_all();
    let mut counter: u32 = 1000;
    let mut decisions = 0u64;
    let mut nontrivial = false;
    let n0 = n;
    let mut removed_since_decision = false;
    // the harness's own record: a REG3 was delivered to the link since its last teardown (keyed by link identity)
    let mut my_last: Option<u64> = None;
    let mut registered: std::collections::BTreeMap<u64, bool> = sh.st.conns.iter().map(|c| (c.conn_id, true)).collect();

    for (oi, op) in case.ops.iter().enumerate() {
        let n = sh.st.conns.len();
        if n == 0 {
            break;
        }
        let eligible_before: Vec<bool> = sh.st.conns.iter().map(|c| c.connected && !matches!(c.phase, LinkPhase::Registering)).collect();
        let connected_before: Vec<(u64, bool)> = sh.st.conns.iter().map(|c| (c.conn_id, c.connected)).collect();
        match op {
            Op::Advance(d) => sh.advance(*d as u64),
            Op::Flush => sh.flush_tick(),
            Op::Housekeeping => {
                sh.housekeeping_core();
            }
            Op::Critical(ms) => {
                let dl = sh.now() + *ms as u64;
                sh.st.critical.extend_to(dl);
            }
            Op::Weak(l, b) => sh.st.conns[idx(*l, n)].weak = *b,
            Op::LossDeg(l, b) => sh.st.conns[idx(*l, n)].loss_degraded = *b,
            Op::CcTarget(l, s) => sh.st.conns[idx(*l, n)].cc_target_bps = TARGETS[*s as usize % TARGETS.len()],
            Op::Bitrate(l, s) => sh.st.conns[idx(*l, n)].bitrate.current_bitrate_bps = BITRATES[*s as usize % BITRATES.len()] as f64,
            Op::Mode(b) => sh.st.cfg.mode = if *b { SchedulingMode::Classic } else { SchedulingMode::Enhanced },
            Op::Quality(b) => sh.st.cfg.quality_enabled = *b,
            Op::Guard(b) => sh.st.cfg.stall_deselect = *b,
            Op::Threshold(t) => sh.st.cfg.stall_min_in_flight = THRESHOLDS[*t as usize % THRESHOLDS.len()],
            Op::Ceiling(t) => sh.st.cfg.stall_ack_stale_ms = CEILINGS[*t as usize % CEILINGS.len()],
            Op::Timeout(t) => sh.st.cfg.conn_timeout_ms = TIMEOUTS[*t as usize % TIMEOUTS.len()],
            Op::Reload(mask) => {
                let list: Vec<std::net::IpAddr> = (0..=n0 as u8).filter(|k| mask >> k & 1 == 1).map(crate::engine::shell::link_ip).collect();
                if list.is_empty() {
                    continue;
                }
                let before: Vec<u64> = sh.st.conns.iter().map(|c| c.conn_id).collect();
                sh.apply_ips(&list);
                let after: Vec<u64> = sh.st.conns.iter().map(|c| c.conn_id).collect();
                if before.iter().any(|c| !after.contains(c)) {
                    removed_since_decision = true;
                    // the previous routing choice is forgotten for good: a datagram that is refused afterwards
                    // (no usable link) does not bring it back
                    my_last = None;
                    obs.class("reload-removed-a-link");
                }
                if after.iter().any(|c| !before.contains(c)) {
                    obs.class("reload-added-a-link");
                }
                let _ = sh.drain_wire();
                continue;
            }
            Op::Up(l, u) => {
                let li = idx(*l, n);
                let now = sh.now();
                let bytes: Vec<u8> = match u {
                    Up::RegErr => {
                        obs.class("reg-err-delivered");
                        // the receiver has rejected this link: whatever the sender's flags say, it is not registered
                        // any more until a new REG3 (the harness's own record)
                        registered.insert(sh.st.conns[li].conn_id, false);
                        vec![0x92, 0x10]
                    }
                    Up::Reg3 => {
                        registered.insert(sh.st.conns[li].conn_id, true);
                        vec![0x92, 0x02]
                    }
                    Up::Ngp => vec![0x92, 0x11],
                    Up::Control => vec![0x80, 0x06, 0, 0, 0, 0, 0, 0, 0, 0, 0, 0, 0, 0, 0, 0],
                    Up::Echo(age) => {
                        let c = &mut sh.st.conns[li];
                        let sent_at = now.saturating_sub(*age as u64);
                        if c.connected && !c.rtt.waiting_for_keepalive_response {
                            // a keepalive went out `age` ms ago (what keepalive_packet arms)
                            c.rtt.record_keepalive_sent(sent_at);
                        }
                        srtla_protocol::create_keepalive_packet(sent_at).to_vec()
                    }
                    Up::SrtlaAckHeld(k) => {
                        let mut seqs: Vec<i32> = sh.st.conns[li].packet_log.keys().copied().collect();
                        seqs.sort();
                        seqs.truncate(*k as usize);
                        let mut p = vec![0x91, 0x00, 0, 0];
                        for s in &seqs {
                            p.extend_from_slice(&(*s as u32).to_be_bytes());
                        }
                        if seqs.is_empty() {
                            p.extend_from_slice(&0x7fff_fff0u32.to_be_bytes());
                        }
                        p
                    }
                    Up::NakHeld(k) => {
                        let mut seqs: Vec<i32> = sh.st.conns[li].packet_log.keys().copied().collect();
                        seqs.sort();
                        seqs.truncate(*k as usize);
                        let mut p = vec![0x80, 0x03, 0, 0];
                        for s in &seqs {
                            p.extend_from_slice(&(*s as u32).to_be_bytes());
                        }
                        if seqs.is_empty() {
                            p.extend_from_slice(&0x7fff_fff0u32.to_be_bytes());
                        }
                        p
                    }
                    Up::SrtAckAll => {
                        let mut p = vec![0u8; 44];
                        p[0] = 0x80;
                        p[1] = 0x02;
                        p[16..20].copy_from_slice(&counter.to_be_bytes());
                        p
                    }
                };
                sh.uplink_pkt(li, &bytes);
            }
            Op::Client(kind, burst) => {
                for _ in 0..*burst {
                    counter += 1;
                    let pkt = client_pkt(*kind, counter);
                    let now = sh.now();
                    let timeout = sh.st.cfg.conn_timeout_ms;
                    let usable: Vec<usize> = (0..n)
                        .filter(|i| {
                            let c = &sh.st.conns[*i];
                            registered.get(&c.conn_id).copied().unwrap_or(false) && c.connected && c.last_received.is_some_and(|lr| now.saturating_sub(lr) < timeout)
                        })
                        .collect();
                    let critical_open = sh.st.critical.is_critical_now(now);
                    // C11: what the scheduler answers for the anchor the glue is supposed to pass
                    let plain = *kind == 0 && !critical_open;
                    let expected: Option<Option<usize>> = if which == Which::C11 && plain && !sh.st.cfg.mode.is_classic() {
                        // the previously selected uplink is the harness's own record: where the previous client
                        // datagram (of any kind) landed
                        let anchor = if removed_since_decision { None } else { my_last.and_then(|cid| sh.st.conns.iter().position(|c| c.conn_id == cid)) };
                        let cfg = sh.st.cfg;
                        Some(srtla_core::selection::select_connection_idx(&mut sh.st.conns, anchor, now, &cfg))
                    } else {
                        None
                    };
                    sh.client_pkt(&pkt);
                    removed_since_decision = false;
                    decisions += 1;
                    let wire = sh.drain_wire();
                    // where did copies of this datagram go?
                    let mut holders: Vec<usize> = Vec::new();
                    for (i, c) in sh.st.conns.iter().enumerate() {
                        let a = sh.addr_of(i);
                        let in_q = c.batch_sender.verif_queue_snapshot().iter().any(|(d, _)| d == &pkt);
                        let on_wire = wire.iter().any(|e| e.addr == a && e.bytes == pkt);
                        if in_q || on_wire {
                            holders.push(i);
                        }
                    }
                    // a link torn down by a failed flush inside the call loses its queue; not in this tier (no send faults)
                    if which == Which::C03 || which == Which::C04 {
                        if !usable.is_empty() {
                            let r = if holders.is_empty() {
                                Err(crate::rt::Violation {
                                    sig: if sh.st.conns.iter().any(|c| !c.connected && !matches!(c.phase, LinkPhase::Registering)) { "blackout-reg-err-zombie".into() } else { "blackout".into() },
                                    msg: format!("op {oi}: client datagram dropped although link(s) {:?} are usable (mode {:?}, guard {})", usable, sh.st.cfg.mode, sh.st.cfg.stall_deselect),
                                })
                            } else {
                                Ok(())
                            };
                            if which == Which::C03 {
                                let mut o2 = Obs::default();
                                ctx.filter_known(r, &mut o2)?;
                                obs.known_hits.append(&mut o2.known_hits);
                            }
                        }
                    }
                    {
                        // record where this datagram landed (the unique copy: the holder that is not a probe target)
                        let ungated: Vec<usize> = holders.iter().copied().filter(|i| !sh.st.conns[*i].is_stall_gated()).collect();
                        if ungated.len() == 1 {
                            my_last = Some(sh.st.conns[ungated[0]].conn_id);
                        }
                    }
                    if let Some(exp) = expected {
                        let ungated: Vec<usize> = holders.iter().copied().filter(|i| !sh.st.conns[*i].is_stall_gated()).collect();
                        match exp {
                            Some(e) => {
                                vensure!(ungated == vec![e], "glue-anchor-mismatch", "op {oi}: the scheduler answers link {e} for the previous choice the glue should pass, the datagram went to {:?}", ungated);
                            }
                            None => {
                                vensure!(holders.is_empty(), "glue-anchor-mismatch", "op {oi}: the scheduler answers None, the datagram went to {:?}", holders);
                            }
                        }
                        if sh.st.conns.len() >= 2 {
                            nontrivial = true;
                        }
                    }
                    if which == Which::C12 && !sh.st.cfg.stall_deselect {
                        for (i, c) in sh.st.conns.iter().enumerate() {
                            let (latched_since, recovery_since, pulled, _) = c.verif_guard_state();
                            vensure!(
                                !c.is_stall_gated() && !c.stall_latched() && latched_since == 0 && recovery_since == 0 && !pulled,
                                "guard-off-not-cleared",
                                "op {oi}: guard off, a {} datagram was routed, but link {i} still has gated={} latched_since={} recovery_since={} pulled={}",
                                kind_name(*kind, critical_open),
                                c.is_stall_gated(),
                                latched_since,
                                recovery_since,
                                pulled
                            );
                        }
                        obs.class("guard-off-decision");
                        if *kind != 0 || critical_open {
                            nontrivial = true;
                            obs.class("guard-off-must-land-datagram");
                        }
                    }
                    if (which == Which::C05 || which == Which::C02) && *kind != 2 && !holders.is_empty() {
                        let gated: Vec<usize> = holders.iter().copied().filter(|i| sh.st.conns[*i].is_stall_gated()).collect();
                        let ungated: Vec<usize> = holders.iter().copied().filter(|i| !sh.st.conns[*i].is_stall_gated()).collect();
                        if !gated.is_empty() && ungated.len() == 1 {
                            // a probe duplicate was made by the real send_stall_probes: flush, then NAK that number
                            let seq = counter & 0x7fff_ffff;
                            let owner = sh.st.conns[ungated[0]].conn_id;
                            sh.flush_tick();
                            let _ = sh.drain_wire();
                            let snap = |sh: &Shell| -> Vec<(u64, i32, i32, i32)> { sh.st.conns.iter().map(|c| (c.conn_id, c.total_nak_count(), c.window, c.in_flight_packets)).collect() };
                            let held_by: Vec<u64> = sh.st.conns.iter().filter(|c| c.packet_log.contains_key(&(seq as i32))).map(|c| c.conn_id).collect();
                            if which == Which::C02 {
                                // nothing was acknowledged in between: whoever transmitted the number holds it
                                for g in gated.iter().chain(ungated.iter()) {
                                    let c = &sh.st.conns[*g];
                                    if c.connected {
                                        vensure!(held_by.contains(&c.conn_id), "transmitted-not-in-flight", "op {oi}: datagram seq {seq} left on link {g} ({}) but is not in that link's in-flight set (in-flight {}, holders {:?})", if gated.contains(g) { "duplicate probe on a stall-gated link" } else { "unique copy" }, c.in_flight_packets, held_by);
                                        vensure!(c.in_flight_packets as usize == c.packet_log.len(), "in-flight-mismatch", "op {oi}: link {g} in-flight count {} != {} logged numbers", c.in_flight_packets, c.packet_log.len());
                                    }
                                }
                                nontrivial = true;
                                obs.class("probe-duplicate-in-flight-on-both");
                                continue;
                            }
                            let mut nak = vec![0x80u8, 0x03, 0, 0];
                            nak.extend_from_slice(&seq.to_be_bytes());
                            // the NAK arrives on the gated link, on the carrier, or elsewhere
                            let arrival = [gated[0], ungated[0], (counter as usize) % n][(counter as usize / 7) % 3];
                            for round in 0..2 {
                                let b = snap(&sh);
                                sh.uplink_pkt(arrival, &nak);
                                let a = snap(&sh);
                                let changed: Vec<u64> = a.iter().zip(b.iter()).filter(|(x, y)| x != y).map(|(x, _)| x.0).collect();
                                vensure!(changed.len() <= 1, "nak-multi-charge", "op {oi}: NAK {seq} (probe-duplicated datagram) changed {} links", changed.len());
                                if let Some(c) = changed.first() {
                                    vensure!(round == 0, "nak-repeat-charged", "op {oi}: the repeated NAK {seq} charged a link again");
                                    vensure!(
                                        *c == owner,
                                        "nak-charged-probe-link",
                                        "op {oi}: NAK {seq}: the unique copy went to link id {owner}, a probe duplicate to gated link(s) {:?}; the charge went to link id {c} (held by {:?})",
                                        gated,
                                        held_by
                                    );
                                    obs.class("nak-on-probed-seq-charged-carrier");
                                }
                            }
                            nontrivial = true;
                            obs.class("nak-on-probed-seq");
                        }
                    }
                    if which == Which::C04 && !holders.is_empty() {
                        // unique copy = a holder that is not a legitimate probe target; probes only on gated+connected links
                        let gated: Vec<usize> = holders.iter().copied().filter(|i| sh.st.conns[*i].is_stall_gated()).collect();
                        let ungated: Vec<usize> = holders.iter().copied().filter(|i| !sh.st.conns[*i].is_stall_gated()).collect();
                        let override_path = *kind != 2 && (critical_open || *kind == 1);
                        let r: CheckResult = (|| {
                            vensure!(ungated.len() <= 1, "duplicate-on-ungated", "op {oi}: datagram copied to {} non-gated links {:?}", ungated.len(), ungated);
                            if ungated.is_empty() {
                                // the unique copy went to a stall-gated link
                                return crate::rt::viol(
                                    if override_path { "override-picks-gated-link" } else { "routed-to-gated-link" },
                                    format!("op {oi}: unique copy of a {} datagram queued on stall-gated link(s) {:?}", kind_name(*kind, critical_open), gated),
                                );
                            }
                            let u = ungated[0];
                            let c = &sh.st.conns[u];
                            let zombie = !c.connected && !matches!(c.phase, LinkPhase::Registering);
                            vensure!(
                                !matches!(c.phase, LinkPhase::Registering),
                                "routed-to-registering-link",
                                "op {oi}: unique copy routed to link {u} which has not completed registration since its last reset"
                            );
                            vensure!(
                                registered.get(&c.conn_id).copied().unwrap_or(false),
                                "routed-to-unregistered-link",
                                "op {oi}: unique copy routed to link {u}: no REG3 has been delivered to it since it was last torn down or rejected with REG_ERR (the link reports connected={}, phase {:?})",
                                c.connected,
                                c.phase
                            );
                            let age = c.last_received.map(|lr| now.saturating_sub(lr));
                            vensure!(
                                age.is_some_and(|a| a < timeout),
                                if override_path { "override-picks-timed-out-link" } else if zombie { "routed-to-reg-err-zombie" } else { "routed-to-timed-out-link" },
                                "op {oi}: unique copy of a {} datagram routed to link {u} with receive age {:?} >= timeout {}",
                                kind_name(*kind, critical_open),
                                age,
                                timeout
                            );
                            vensure!(
                                c.connected,
                                if zombie { "routed-to-reg-err-zombie" } else { "routed-to-disconnected-link" },
                                "op {oi}: unique copy routed to link {u} which is not connected (phase {:?})",
                                c.phase
                            );
                            for g in &gated {
                                vensure!(sh.st.conns[*g].connected, "probe-on-disconnected", "op {oi}: duplicate probe on disconnected link {g}");
                                vensure!(*kind != 2, "probe-of-control", "op {oi}: control datagram duplicated onto gated link {g}");
                            }
                            Ok(())
                        })();
                        let mut o2 = Obs::default();
                        ctx.filter_known(r, &mut o2)?;
                        obs.known_hits.append(&mut o2.known_hits);
                        if !gated.is_empty() {
                            obs.class("probe-duplicate");
                        }
                        if override_path {
                            obs.class("override-path");
                        }
                        // non-trivial: an ineligible link was present at this decision
                        let ineligible_present = (0..n).any(|i| {
                            let c = &sh.st.conns[i];
                            matches!(c.phase, LinkPhase::Registering) || c.is_stall_gated() || c.last_received.is_none_or(|lr| now.saturating_sub(lr) >= timeout)
                        });
                        if ineligible_present {
                            nontrivial = true;
                            if sh.st.conns.iter().any(|c| c.is_stall_gated()) {
                                obs.class("decision-with-gated-link");
                            }
                            if sh.st.conns.iter().any(|c| c.connected && c.last_received.is_some_and(|lr| now.saturating_sub(lr) >= timeout)) {
                                obs.class("decision-with-timed-out-link");
                            }
                            if sh.st.conns.iter().any(|c| matches!(c.phase, LinkPhase::Registering)) {
                                obs.class("decision-with-registering-link");
                            }
                        }
                    }
                    if which == Which::C03 && !usable.is_empty() {
                        let all_gated = usable.iter().all(|i| {
                            let c = &sh.st.conns[*i];
                            c.stall_latched() || c.verif_guard_state().2 || c.weak || c.loss_degraded
                        });
                        if all_gated || usable.len() < n {
                            nontrivial = true;
                        }
                        if sh.st.conns.iter().any(|c| !c.connected && !matches!(c.phase, LinkPhase::Registering)) {
                            obs.class("reg-err-zombie-present");
                        }
                    }
                }
            }
        }
        // a link that was torn down in this step is no longer registered
        for (cid, was) in &connected_before {
            if *was && sh.st.conns.iter().any(|c| c.conn_id == *cid && !c.connected) {
                registered.insert(*cid, false);
            }
        }
        // wire clause: a link that was registering / disconnected before this step carries no stream data
        let wire_tail = sh.drain_wire();
        if which == Which::C04 && !matches!(op, Op::Client(..)) {
            for e in &wire_tail {
                let internal = e.bytes.len() >= 2 && (e.bytes[0] == 0x90 || e.bytes[0] == 0x92);
                if let Some(i) = sh.idx_of(e.addr)
                    && !internal
                    && i < eligible_before.len()
                    && !eligible_before[i]
                {
                    return crate::rt::viol("stream-data-on-unregistered-link", format!("op {oi} {:?}: link {i} was not registered before this step but put a {}-byte stream datagram on the wire", op, e.bytes.len()));
                }
            }
        }
        let _ = sh.drain_client();
    }
    obs.count("decisions", decisions);
    obs.nontrivial = nontrivial;
    if nontrivial {
        obs.sample = Some(json!({"links": n, "classic": case.classic, "guard": case.guard, "n_ops": case.ops.len(), "decisions": decisions, "first_ops": format!("{:?}", &case.ops[..case.ops.len().min(8)])}));
    }
    Ok(())
}

fn kind_name(kind: u8, critical: bool) -> &'static str {
    match (kind, critical) {
        (2, _) => "control",
        (1, true) => "retransmit-flagged (critical window open)",
        (1, false) => "retransmit-flagged",
        (_, true) => "data (critical window open)",
        _ => "data",
    }
}

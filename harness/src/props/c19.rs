//! C19 — IP-list reload never strands the stream and never disturbs survivors.
//! Parser tier: generated file contents vs an independent line splitter +
//! `IpAddr::from_str`. Apply tier: reload sequences through the real
//! `apply_connection_changes` on a live shell (packets queued, in flight, tracked).

use std::collections::BTreeSet;
use std::net::IpAddr;
use std::str::FromStr;

use proptest::collection::vec;
use proptest::prelude::*;
use serde::{Deserialize, Serialize};
use serde_json::json;
use srtla_core::ConfigSnapshot;
use srtla_send::sender::verif_hooks::{IpReload, analyze_ip_reload, analyze_ip_reload_text};

use crate::engine::shell::{Shell, link_ip};
use crate::props::acct::Owners;
use crate::props::c12::projection;
use crate::rt::{CheckResult, Ctx, Obs, idx};

// ------------------------------------------------------------------ parser tier

fn line_frag() -> impl Strategy<Value = String> {
    prop_oneof![
        6 => (0u8..=255, 0u8..=255, 0u8..=255, 0u8..=255).prop_map(|(a, b, c, d)| format!("{a}.{b}.{c}.{d}")),
        3 => (10u8..50).prop_map(|k| format!("127.0.0.{k}")),
        3 => proptest::sample::select(vec![
            "::1", "fe80::1", "2001:db8::8a2e:370:7334", "::ffff:192.0.2.1", "::", "1:2:3:4:5:6:7:8", "fe80::1%eth0", "[::1]", "::ffff:1.2.3", "1::2::3",
        ]).prop_map(|s| s.to_string()),
        4 => proptest::sample::select(vec![
            "", " ", "\t", "garbage", "10.0.0", "10.0.0.256", "10.0.0.1.5", "010.0.0.1", "10.0.0.1/24", "10.0.0.1:80", "# comment", "localhost", "0x7f.0.0.1", "1.2.3.4 5.6.7.8", "１.２.３.４", "-1.2.3.4",
            "1.2.3.4,", "\u{feff}1.2.3.4", "1.2.3.4\u{0}",
        ]).prop_map(|s| s.to_string()),
        1 => "[ -~]{0,12}",
    ]
}

fn decorated_line() -> impl Strategy<Value = String> {
    (line_frag(), proptest::sample::select(vec!["", "", " ", "\t", "  ", "\u{a0}", "\u{2003}", "\u{b}", "\r"]), proptest::sample::select(vec!["", "", " ", "\t ", "\u{3000}", "\u{c}"]))
        .prop_map(|(l, pre, post)| format!("{pre}{l}{post}"))
}

fn file_text() -> impl Strategy<Value = String> {
    prop_oneof![
        8 => (vec((decorated_line(), proptest::sample::select(vec!["\n", "\n", "\n", "\r\n", "\r", "\n\n", "\r\n\r\n"])), 0..40), any::<bool>()).prop_map(|(ls, trailing)| {
            let mut s = String::new();
            let k = ls.len();
            for (i, (l, sep)) in ls.into_iter().enumerate() {
                s.push_str(&l);
                if i + 1 < k || trailing {
                    s.push_str(sep);
                }
            }
            s
        }),
        1 => vec(any::<u8>(), 0..120).prop_map(|b| String::from_utf8_lossy(&b).to_string()),
        1 => Just(String::new()),
    ]
}

/// Independent reading of the file: split at '\n', drop one '\r' before it,
/// trim Unicode white space, keep what `IpAddr::from_str` accepts.
fn reference_ips(text: &str) -> Vec<IpAddr> {
    let mut out = Vec::new();
    for piece in text.split('\n') {
        let piece = piece.strip_suffix('\r').unwrap_or(piece);
        let t: String = {
            let chars: Vec<char> = piece.chars().collect();
            let mut a = 0;
            let mut b = chars.len();
            while a < b && chars[a].is_whitespace() {
                a += 1;
            }
            while b > a && chars[b - 1].is_whitespace() {
                b -= 1;
            }
            chars[a..b].iter().collect()
        };
        if t.is_empty() {
            continue;
        }
        if let Ok(ip) = IpAddr::from_str(&t) {
            out.push(ip);
        }
    }
    out
}

pub fn check_text(text: &String, obs: &mut Obs) -> CheckResult {
    let exp = reference_ips(text);
    let got = std::panic::catch_unwind(|| analyze_ip_reload_text(text));
    let got = match got {
        Ok(g) => g,
        Err(p) => return crate::rt::viol("reload-parser-panic", format!("analyze_ip_reload_text panicked: {}", crate::rt::panic_text(&p))),
    };
    match got {
        IpReload::Refuse(_) => {
            vensure!(exp.is_empty(), "reload-refused-with-valid-ip", "file with {} parsable address(es) was refused: {:?}", exp.len(), text);
            obs.class(if text.trim().is_empty() { "refused-empty" } else { "refused-no-valid-ip" });
        }
        IpReload::Apply { ips, .. } => {
            vensure!(!exp.is_empty(), "reload-applied-without-valid-ip", "file without a parsable address was applied as {:?}: {:?}", ips.as_slice(), text);
            vensure!(ips.as_slice() == exp.as_slice(), "reload-list-wrong", "applied list {:?} != parsable lines in order {:?} for {:?}", ips.as_slice(), exp, text);
            obs.class("applied");
            let distinct: BTreeSet<&IpAddr> = exp.iter().collect();
            if distinct.len() < exp.len() {
                obs.class("applied-with-duplicates");
            }
        }
    }
    // the file-reading entry point agrees, and refuses a missing file
    obs.nontrivial = !text.trim().is_empty();
    Ok(())
}

/// The file-reading entry point (`analyze_ip_reload`, what the SIGHUP arm calls) on files as bytes. A file that is
/// valid UTF-8 must be judged exactly like its text. A file with undecodable bytes is "unreadable" to the unchanged
/// code and refused as a whole; the statement could also be read as "apply the parsable lines" - both are accepted,
/// anything else (a prefix, a subset) is not.
pub fn check_file_bytes(lines: &Vec<Vec<u8>>, obs: &mut Obs) -> CheckResult {
    let dir = crate::rt::verif_dir().join("harness").join("target");
    let _ = std::fs::create_dir_all(&dir);
    let path = dir.join(format!("c19-bytes-{}-{:?}.txt", std::process::id(), std::thread::current().id()));
    let mut bytes: Vec<u8> = Vec::new();
    for l in lines {
        bytes.extend_from_slice(l);
        bytes.push(b'\n');
    }
    std::fs::write(&path, &bytes).map_err(|e| crate::rt::Violation { sig: "harness".into(), msg: format!("write: {e}") })?;
    let got = analyze_ip_reload(path.to_str().unwrap_or_default());
    let _ = std::fs::remove_file(&path);
    // per-line reading of the bytes: a line that is not valid UTF-8 is not an address
    let all: Vec<IpAddr> = lines.iter().filter_map(|l| std::str::from_utf8(l).ok()).flat_map(|t| reference_ips(t)).collect();
    match std::str::from_utf8(&bytes) {
        Ok(text) => {
            let exp = reference_ips(text);
            match got {
                IpReload::Refuse(_) => vensure!(exp.is_empty(), "reload-refused-with-valid-ip", "file (valid UTF-8) with {} parsable address(es) was refused", exp.len()),
                IpReload::Apply { ips, .. } => vensure!(ips.as_slice() == exp.as_slice(), "reload-list-wrong", "file applied as {:?}, parsable lines in order are {:?}", ips.as_slice(), exp),
            }
        }
        Err(_) => {
            obs.nontrivial = !all.is_empty();
            obs.class("file-with-undecodable-bytes");
            match got {
                IpReload::Refuse(_) => obs.class("undecodable-file-refused"),
                IpReload::Apply { ips, .. } => {
                    vensure!(ips.as_slice() == all.as_slice(), "reload-list-wrong", "a file with an undecodable line was applied as {:?}; it has to be refused as unreadable or applied with all its parsable lines {:?}", ips.as_slice(), all);
                    obs.class("undecodable-file-applied-in-full");
                }
            }
        }
    }
    Ok(())
}

fn file_bytes() -> impl Strategy<Value = Vec<Vec<u8>>> {
    let line = prop_oneof![
        6 => (0u8..12).prop_map(|k| format!("127.0.0.{}", 10 + k).into_bytes()),
        1 => Just(b"::1".to_vec()),
        1 => Just(b"garbage".to_vec()),
        1 => Just(Vec::new()),
        1 => Just(b" 127.0.0.30\r".to_vec()),
        2 => prop_oneof![Just(vec![0xffu8, 0xfe, 0x41]), Just(vec![0xe9u8, b'c', b'o', b'm']), Just(vec![b'#', 0xc3]), vec(any::<u8>(), 1..6)],
    ];
    vec(line, 0..8)
}

fn check_file_entry(ctx: &Ctx) {
    let dir = crate::rt::verif_dir().join("harness").join("target");
    let _ = std::fs::create_dir_all(&dir);
    let path = dir.join(format!("c19-{}.txt", std::process::id()));
    let missing = dir.join(format!("c19-{}-missing.txt", std::process::id()));
    let _ = std::fs::remove_file(&missing);
    let mut bad = None;
    if !matches!(analyze_ip_reload(missing.to_str().unwrap()), IpReload::Refuse(_)) {
        bad = Some("a missing file was not refused".to_string());
    }
    for text in ["", "\n\n", "garbage\n", "127.0.0.12\n", "x\n127.0.0.12\r\n  127.0.0.13  \n"] {
        std::fs::write(&path, text).unwrap();
        let a = analyze_ip_reload(path.to_str().unwrap());
        let b = analyze_ip_reload_text(text);
        if a != b {
            bad = Some(format!("file entry point disagrees with the text entry point on {:?}", text));
        }
    }
    let _ = std::fs::remove_file(&path);
    ctx.extra("file_entry_point", json!({"checked": 6, "problem": bad}));
    if let Some(b) = bad {
        ctx.report_violation("file-entry", &crate::rt::Violation { sig: "reload-file-entry".into(), msg: b }, json!({"file": true}));
    }
}

// ------------------------------------------------------------------- apply tier

#[derive(Debug, Clone, Hash, Serialize, Deserialize)]
pub enum Entry {
    Addr(u8),
    Garbage,
    Blank,
    /// a parsable address that cannot be opened on this host: ::1 (cannot reach the IPv4 receiver)
    Unopenable(u8),
}

fn unopenable_ip(k: u8) -> IpAddr {
    // ::1 cannot reach the IPv4 receiver (whether an address could be opened is read off the result, never assumed)
    let _ = k;
    IpAddr::from_str("::1").unwrap()
}

#[derive(Debug, Clone, Hash, Serialize, Deserialize)]
pub enum Op {
    Reload(Vec<Entry>, bool),
    Client(u8),
    Flush,
    Ack(u16, u8),
    Nak(u16, u8),
    Advance(u16),
    Housekeeping,
}

#[derive(Debug, Clone, Hash, Serialize, Deserialize)]
pub struct Case {
    pub init: Vec<u8>,
    pub classic: bool,
    /// first data sequence number (so that every slot of the attribution ring, incl. the last, is reached)
    #[serde(default)]
    pub first_seq: u32,
    pub ops: Vec<Op>,
    /// the receiver is named by host name on the command line ("localhost") instead of an IPv4 literal
    #[serde(default)]
    pub host_name: bool,
    /// the start-up list names this element of `init` twice (start-up does not de-duplicate: two uplinks on one address)
    #[serde(default)]
    pub dup: Option<u8>,
}

fn apply_strategy(max_ops: usize) -> impl Strategy<Value = Case> {
    let entry = prop_oneof![16 => (0u8..8).prop_map(Entry::Addr), 2 => (0u8..40).prop_map(Entry::Addr), 2 => Just(Entry::Garbage), 2 => Just(Entry::Blank), 1 => (0u8..8).prop_map(Entry::Unopenable)];
    let op = prop_oneof![
        6 => (vec(entry, 0..7), any::<bool>()).prop_map(|(e, crlf)| Op::Reload(e, crlf)),
        8 => (1u8..50).prop_map(Op::Client),
        3 => Just(Op::Flush),
        3 => (any::<u16>(), 1u8..10).prop_map(|(l, k)| Op::Ack(l, k)),
        2 => (any::<u16>(), 1u8..5).prop_map(|(l, k)| Op::Nak(l, k)),
        3 => prop_oneof![0u16..300, Just(1000u16), Just(3001)].prop_map(Op::Advance),
        1 => Just(Op::Housekeeping),
    ];
    (
        proptest::collection::btree_set(0u8..8, 1..=4),
        any::<bool>(),
        prop_oneof![2 => Just(100u32), 3 => (1u32..8).prop_flat_map(|k| (k * 16_384 - 60)..(k * 16_384 - 1)), 1 => Just(0u32), 1 => Just(0x7fff_ff00u32), 1 => 0u32..0x7fff_0000],
        vec(op, 1..max_ops),
        prop::bool::weighted(0.3),
        prop_oneof![5 => Just(None), 1 => (0u8..4).prop_map(Some)],
    )
        .prop_map(|(init, classic, first_seq, ops, host_name, dup)| Case { init: init.into_iter().collect(), classic, first_seq, ops, host_name, dup })
}

fn full_projection(sh: &Shell, i: usize) -> String {
    let c = &sh.st.conns[i];
    let io = sh.st.conn_io.get(&c.conn_id);
    format!(
        "{} guard={:?} gated={} events={} pulls={} cache={:?} queue={:?} sock={:?} port={:?}",
        projection(c),
        c.verif_guard_state(),
        c.is_stall_gated(),
        c.stall_gate_events(),
        c.silence_pulls(),
        c.verif_quality_cache(),
        c.batch_sender.verif_queue_snapshot(),
        io.map(|io| std::sync::Arc::as_ptr(&io.socket) as usize),
        io.and_then(|io| io.socket.get_ref().local_addr().ok()).and_then(|a| a.as_socket()).map(|a| a.port())
    )
}

fn has_twins(sh: &Shell) -> bool {
    let mut seen = BTreeSet::new();
    sh.st.conns.iter().any(|c| !seen.insert(c.local_ip))
}

pub fn check_apply(case: &Case, obs: &mut Obs) -> CheckResult {
    let mut cfg = ConfigSnapshot::default();
    if case.classic {
        cfg.mode = srtla_core::SchedulingMode::Classic;
    }
    let mut init = case.init.clone();
    if let Some(d) = case.dup {
        let x = init[d as usize % init.len()];
        init.push(x);
        obs.class("two-uplinks-on-one-address-at-start");
    }
    let mut sh = Shell::new_with_host(&init, cfg, if case.host_name { "localhost" } else { "127.0.0.1" });
    if case.host_name && !sh.st.host_fallback {
        obs.class("receiver-named-by-host-name");
    }
    sh.establish_all();
    // the real reader tasks, kept in step with the link set the way the loop does (sync_readers after a reload)
    sh.sync_readers();
    let mut owners = Owners::default();
    let mut seq: u32 = case.first_seq;
    let mut nontrivial = false;
    let mut reloads = 0u32;
    for (oi, op) in case.ops.iter().enumerate() {
        let n = sh.st.conns.len();
        match op {
            Op::Advance(d) => sh.advance(*d as u64),
            Op::Flush => sh.flush_tick(),
            Op::Housekeeping => {
                sh.housekeeping();
            }
            Op::Client(_) | Op::Ack(..) | Op::Nak(..) if has_twins(&sh) => {
                // while two uplinks share an address the wire cannot be attributed to a link by its source address:
                // traffic operations are left out, the structural clauses of a reload are still judged
            }
            Op::Client(k) => {
                for _ in 0..*k {
                    seq = (seq + 1) & 0x7fff_ffff;
                    if seq % 16_384 == 16_383 {
                        obs.class("last-ring-slot-used");
                    }
                    let mut p = vec![0u8; 64];
                    p[0..4].copy_from_slice(&seq.to_be_bytes());
                    p[16..20].copy_from_slice(&seq.to_be_bytes());
                    sh.client_pkt(&p);
                    // who carries it? (queue or wire)
                    let wire = sh.drain_wire();
                    for (i, c) in sh.st.conns.iter().enumerate() {
                        let a = sh.addr_of(i);
                        if !c.is_stall_gated() && (c.batch_sender.verif_queue_snapshot().iter().any(|(d, _)| d == &p) || wire.iter().any(|e| e.addr == a && e.bytes == p)) {
                            owners.route(seq, c.conn_id, sh.now(), oi);
                        }
                    }
                }
            }
            Op::Ack(l, k) | Op::Nak(l, k) => {
                if n == 0 {
                    continue;
                }
                let li = idx(*l, n);
                let mut seqs: Vec<i32> = sh.st.conns[li].packet_log.keys().copied().collect();
                seqs.sort();
                seqs.truncate(*k as usize);
                let mut p = if matches!(op, Op::Ack(..)) { vec![0x91, 0, 0, 0] } else { vec![0x80, 0x03, 0, 0] };
                for s in &seqs {
                    p.extend_from_slice(&(*s as u32).to_be_bytes());
                }
                p.extend_from_slice(&0x7000_0000u32.to_be_bytes());
                sh.uplink_pkt(li, &p);
            }
            Op::Reload(entries, crlf) => {
                reloads += 1;
                // the text exactly as a file would hold it
                let nl = if *crlf { "\r\n" } else { "\n" };
                let mut text = String::new();
                for e in entries {
                    match e {
                        Entry::Addr(k) => text.push_str(&format!(" {}{nl}", link_ip(*k))),
                        Entry::Garbage => text.push_str(&format!("not-an-ip{nl}")),
                        Entry::Blank => text.push_str(nl),
                        Entry::Unopenable(k) => {
                            text.push_str(&format!("{}{nl}", unopenable_ip(*k)));
                            obs.class("unopenable-address-listed");
                        }
                    }
                }
                let before_ids: Vec<u64> = sh.st.conns.iter().map(|c| c.conn_id).collect();
                let before_ips: Vec<IpAddr> = sh.st.conns.iter().map(|c| c.local_ip).collect();
                let before_proj: Vec<String> = (0..n).map(|i| full_projection(&sh, i)).collect();
                let before_last = sh.st.last_selected;
                let now = sh.now();
                // composed with the parser exactly as the SIGHUP arm + housekeeping arm do
                match analyze_ip_reload_text(&text) {
                    IpReload::Refuse(_) => {
                        let desired = reference_ips(&text);
                        vensure!(desired.is_empty(), "reload-refused-with-valid-ip", "op {oi}: reload with parsable addresses refused");
                        // nothing is applied
                        for i in 0..n {
                            vensure!(full_projection(&sh, i) == before_proj[i], "refused-reload-changed-link", "op {oi}: refused reload changed link {i}");
                        }
                        vensure!(sh.st.conns.len() == n && sh.st.last_selected == before_last, "refused-reload-changed-link", "op {oi}: refused reload changed the link set");
                        obs.class("reload-refused");
                    }
                    IpReload::Apply { ips, .. } => {
                        let before_ports: Vec<u16> = (0..n).map(|i| sh.local_port(i)).collect();
                        sh.apply_ips(&ips);
                        sh.sync_readers();
                        let desired: Vec<IpAddr> = {
                            let mut seen = BTreeSet::new();
                            reference_ips(&text).into_iter().filter(|ip| seen.insert(*ip)).collect()
                        };
                        let removed: Vec<usize> = (0..n).filter(|i| !desired.contains(&before_ips[*i])).collect();
                        let survivors: Vec<usize> = (0..n).filter(|i| desired.contains(&before_ips[*i])).collect();
                        // (exempt only if it really was not opened)
                        let unopenable: Vec<IpAddr> = entries
                            .iter()
                            .filter_map(|e| if let Entry::Unopenable(k) = e { Some(unopenable_ip(*k)) } else { None })
                            .filter(|u| sh.st.conns.iter().all(|c| c.local_ip != *u))
                            .collect();
                        if !unopenable.is_empty() {
                            obs.class("listed-address-could-not-be-opened");
                        }
                        // an address that cannot be opened cannot be added (it is skipped with a warning); every other
                        // new address is
                        let added: Vec<IpAddr> = desired.iter().copied().filter(|ip| !before_ips.contains(ip) && !unopenable.contains(ip)).collect();

                        // survivors untouched
                        for s in &survivors {
                            let pos = sh.st.conns.iter().position(|c| c.conn_id == before_ids[*s]);
                            vensure!(pos.is_some(), "survivor-removed", "op {oi}: link {} ({}) is still listed but was removed", s, before_ips[*s]);
                            let after = full_projection(&sh, pos.unwrap());
                            vensure!(after == before_proj[*s], "survivor-disturbed", "op {oi}: surviving link {} changed:\n before {}\n after  {}", before_ips[*s], before_proj[*s], after);
                        }
                        // removed links gone, with their I/O handle and attribution records
                        for r in &removed {
                            let cid = before_ids[*r];
                            vensure!(sh.st.conns.iter().all(|c| c.conn_id != cid), "stale-link-kept", "op {oi}: link {} is no longer listed but is still present", before_ips[*r]);
                            vensure!(!sh.st.conn_io.contains_key(&cid), "stale-io-kept", "op {oi}: removed link {} still has an I/O handle", before_ips[*r]);
                            let owned: Vec<u32> = owners.slot.values().filter(|v| v.1 == cid).map(|v| v.0).collect();
                            for sq in &owned {
                                vensure!(sh.st.seq_tracker.get(*sq, now).is_none(), "stale-attribution-record", "op {oi}: NAK-attribution record for seq {sq} still names removed link {}", before_ips[*r]);
                            }
                            if !owned.is_empty() && !survivors.is_empty() {
                                nontrivial = true;
                                obs.class("removed-link-owned-tracked-seqs");
                            }
                            owners.purge(cid);
                            // "together with their I/O handle": nobody reads the removed link's socket any more
                            while sh.st.packet_rx.try_recv().is_ok() {}
                            // (checked for the first removed link of a reload: each check costs real milliseconds)
                            if before_ports[*r] != 0 && *r == removed[0] {
                                sh.pump(1); // the runtime retires the aborted reader
                                let _ = sh.st.rx.send_to(&[0x80, 0x07, 0, 0, 1, 2, 3, 4], (before_ips[*r], before_ports[*r]));
                                sh.pump(1);
                                let mut still_read = false;
                                while let Ok(p) = sh.st.packet_rx.try_recv() {
                                    if p.conn_id == cid {
                                        still_read = true;
                                    }
                                }
                                vensure!(!still_read, "removed-link-still-read", "op {oi}: link {} was removed by the reload, but a datagram sent to its socket (port {}) afterwards was still read and queued under its id", before_ips[*r], before_ports[*r]);
                            }
                        }
                        // each new address exactly once, with an I/O entry
                        for a in &added {
                            let cnt = sh.st.conns.iter().filter(|c| c.local_ip == *a).count();
                            vensure!(cnt == 1, "new-address-count", "op {oi}: new address {a} present {cnt} times");
                            let c = sh.st.conns.iter().find(|c| c.local_ip == *a).unwrap();
                            vensure!(sh.st.conn_io.contains_key(&c.conn_id), "new-address-no-io", "op {oi}: new link {a} has no I/O handle");
                            vensure!(!before_ids.contains(&c.conn_id), "new-address-reused-id", "op {oi}: new link {a} re-uses an existing identity");
                        }
                        vensure!(sh.st.conns.len() == survivors.len() + added.len(), "link-set-wrong", "op {oi}: {} links after reload, expected {} survivors + {} added", sh.st.conns.len(), survivors.len(), added.len());
                        vensure!(sh.st.conn_io.len() == sh.st.conns.len(), "io-map-out-of-sync", "op {oi}: {} I/O handles for {} links", sh.st.conn_io.len(), sh.st.conns.len());
                        if !removed.is_empty() {
                            vensure!(sh.st.last_selected.is_none(), "routing-choice-kept", "op {oi}: a link was removed but the previous routing choice {:?} was kept", sh.st.last_selected);
                            obs.class("link-removed");
                        }
                        if !added.is_empty() {
                            obs.class("link-added");
                            // new links come up through a real REG3 so traffic can use them
                            // ... sent through the kernel to the new link's socket: its reader task must exist
                            for a in &added {
                                if let Some(i) = sh.st.conns.iter().position(|c| c.local_ip == *a) {
                                    let _ = sh.rx_send_link(i, &[0x92, 0x02]);
                                }
                            }
                            sh.pump(1);
                            sh.drain_queue();
                            for a in &added {
                                if let Some(i) = sh.st.conns.iter().position(|c| c.local_ip == *a) {
                                    if !sh.st.conns[i].connected {
                                        // one more round before judging
                                        sh.pump(1);
                                        sh.drain_queue();
                                    }
                                    vensure!(sh.st.conns[i].connected, "new-link-not-read", "op {oi}: the REG3 sent to the socket of the newly added link {a} was never read (no reader task for it?)");
                                }
                            }
                        }
                        if desired.len() < reference_ips(&text).len() {
                            obs.class("list-repeats-an-address");
                        }
                    }
                }
            }
        }
        let _ = sh.drain_wire();
        let _ = sh.drain_client();
    }
    obs.nontrivial = nontrivial;
    if nontrivial {
        obs.sample = Some(json!({"init": case.init, "n_ops": case.ops.len(), "reloads": reloads, "first_ops": format!("{:.300}", format!("{:?}", &case.ops[..case.ops.len().min(6)]))}));
    }
    Ok(())
}

pub fn run(ctx: &Ctx) -> &'static str {
    ctx.assume("a line is parsable iff, after splitting at '\\n', dropping one preceding '\\r' and trimming Unicode white space, std::net::IpAddr::from_str accepts it");
    ctx.assume("apply tier uses IPv4 loopback aliases 127.0.0.10..49 (every one binds here); relative order and initial phase of added links, first_invalid_line, and the routing choice when nothing was removed are not asserted");
    for (file, body) in ctx.replay_files() {
        let done = ctx.replay_case::<String, _>("texts", &file, &body, check_text) || ctx.replay_case::<Case, _>("apply", &file, &body, check_apply) || ctx.replay_case::<Vec<Vec<u8>>, _>("file-bytes", &file, &body, check_file_bytes);
        if !done {
            eprintln!("replay {}: unknown part", file.display());
        }
    }
    if ctx.replay.is_some() {
        return "exploration";
    }
    check_file_entry(ctx);
    ctx.explore(
        "texts",
        "file contents from a grammar (valid IPv4 / IPv6 incl. mapped and zone forms, garbage, blanks, tabs, CRLF, lone CR, Unicode spaces, BOM, duplicates, no trailing newline, 0..40 lines) and arbitrary bytes as UTF-8; refuse iff no parsable line, else exactly the parsable lines in order; non-trivial = non-blank text",
        ctx.tier.pick(150_000, 1_500_000),
        file_text,
        |_| check_text,
    );
    ctx.explore(
        "file-bytes",
        "ips files as bytes through the file-reading entry point analyze_ip_reload (addresses, garbage, blanks, CR, lines of undecodable bytes): valid UTF-8 is judged like its text; a file with an undecodable line is either refused as unreadable or applied with all its parsable lines in order; non-trivial = an undecodable line and at least one parsable address",
        ctx.tier.pick(6_000, 100_000),
        file_bytes,
        |_| check_file_bytes,
    );
    let mo = ctx.tier.pick(30, 60);
    ctx.explore(
        "apply",
        "sequences of reloads (address sets from the loopback range, with repeats, garbage and blank lines, LF/CRLF) through the parser and the real apply_connection_changes on a live shell with packets queued, in flight and tracked; survivors keep identity, socket object, local port and full state projection (incl. guard state and queue contents); removed links vanish with their I/O handle and attribution records; each new address added once with an I/O entry; routing choice forgotten when a link was removed; refused reloads change nothing; non-trivial = a reload that removes a link owning tracked seqs while keeping another",
        ctx.tier.pick(10_000, 100_000),
        || apply_strategy(mo),
        |_| check_apply,
    );
    crate::props::e2e::run(ctx, crate::props::e2e::Phase::Reload, ctx.tier.pick(1, 3));
    crate::props::e2e::run(ctx, crate::props::e2e::Phase::ReloadEarly, ctx.tier.pick(1, 2));
    crate::props::e2e::run(ctx, crate::props::e2e::Phase::ReloadOutage, ctx.tier.pick(1, 2));
    "exploration"
}

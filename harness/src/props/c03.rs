//! C03 — no blackout: a usable uplink always gets the packet.
//! Validity predicate on every select of generated link-state histories.

use serde_json::json;
use srtla_core::selection::enhanced::in_flight_cap_exceeded;
use srtla_core::selection::select_connection_idx;

use crate::engine::selstate::{SelCase, World, strategy};
use crate::rt::{CheckResult, Ctx, Obs};

pub fn check(case: &SelCase, obs: &mut Obs) -> CheckResult {
    let mut w = World::new(case);
    let mut nontrivial = false;
    let mut selects = 0u32;
    let mut combos: Vec<String> = Vec::new();
    let r = w.run(&case.ops, |w, last| {
        selects += 1;
        let usable: Vec<usize> = (0..w.links.len()).filter(|i| w.usable(*i)).collect();
        let res = select_connection_idx(&mut w.links, last, w.now, &w.cfg);
        if let Some(r) = res {
            vensure!(r < w.links.len(), "select-out-of-range", "step {}: selected index {} of {}", w.step, r, w.links.len());
            w.last_sel = Some(r);
        }
        if !usable.is_empty() {
            vensure!(
                res.is_some(),
                "blackout",
                "step {}: {} usable link(s) {:?} but the scheduler returned None (mode {:?}, guard {}, gates {:?})",
                w.step,
                usable.len(),
                usable,
                w.cfg.mode,
                w.cfg.stall_deselect,
                usable.iter().map(|i| { let c = &w.links[*i]; (c.stall_latched(), c.verif_guard_state().2, c.weak, c.loss_degraded) }).collect::<Vec<_>>()
            );
            // "returns an uplink for the packet instead of dropping it": a datagram handed to a link that is not
            // registered / connected / heard within the timeout is as good as dropped while a usable one exists
            let r = res.unwrap();
            vensure!(
                usable.contains(&r),
                "unusable-link-chosen-while-usable-exists",
                "step {}: usable link(s) {:?} exist but the scheduler returned link {r} (connected {}, registered {}, receive age {:?}, mode {:?})",
                w.step,
                usable,
                w.links[r].connected,
                w.registered.get(r).copied().unwrap_or(false),
                w.links[r].last_received.map(|lr| w.now.saturating_sub(lr)),
                w.cfg.mode
            );
            if r > 0 && (0..r).any(|i| !usable.contains(&i)) {
                obs.class("chosen-link-behind-an-unusable-one");
            }
            // non-triviality: every usable link has a gate engaged, or another link is excluded
            let mut all_gated = true;
            let mut union = [false; 5];
            for i in &usable {
                let c = &w.links[*i];
                let g = [c.stall_latched(), c.verif_guard_state().2, c.weak, c.loss_degraded, in_flight_cap_exceeded(c)];
                if !g.iter().any(|x| *x) {
                    all_gated = false;
                }
                for k in 0..5 {
                    union[k] |= g[k];
                }
            }
            let other_excluded = usable.len() < w.links.len();
            if all_gated || other_excluded {
                nontrivial = true;
            }
            if all_gated {
                let names = ["latched", "pulled", "weak", "lossdeg", "capped"];
                let s: Vec<&str> = (0..5).filter(|k| union[*k]).map(|k| names[k]).collect();
                let key = format!("all-usable-gated:{}:{}", if w.cfg.mode.is_classic() { "classic" } else { "enhanced" }, s.join("+"));
                if !combos.contains(&key) {
                    combos.push(key);
                }
            }
        } else if res.is_none() {
            // nothing usable and nothing selected: fine
        }
        Ok(())
    });
    for c in combos {
        obs.class(&c);
    }
    obs.count("selects", selects as u64);
    obs.nontrivial = nontrivial;
    if nontrivial {
        obs.sample = Some(json!({"links": case.n_links, "init": case.init, "classic": case.classic, "guard": case.guard, "n_ops": case.ops.len(), "first_ops": format!("{:?}", &case.ops[..case.ops.len().min(10)])}));
    }
    r
}

pub fn run(ctx: &Ctx) -> &'static str {
    ctx.assume("usable(i) := phase != Registering and connected and heard within the configured timeout, recomputed from the link's fields (not via is_timed_out)");
    ctx.assume("link states are produced only by production calls (REG3 state change, register/ACK/NAK, RTT samples, resets, housekeeping's per-link phase/recovery calls) and the public fields the shell writes (weak, loss_degraded, cc_target_bps, measured bitrate)");
    for (file, body) in ctx.replay_files() {
        let done = ctx.replay_case::<SelCase, _>("states", &file, &body, check) || crate::props::c03_shell::replay(ctx, &file, &body);
        if !done {
            eprintln!("replay {}: unknown part", file.display());
        }
    }
    if ctx.replay.is_some() {
        return "exploration";
    }
    let mo = ctx.tier.pick(60, 120);
    ctx.explore(
        "states",
        "link-state histories over 1..4 real connections (phases, receive age vs timeout edges, in-flight around the thresholds, proof age, latch/pull history, weak/loss-degraded, CC target vs bitrate, NAK/quality history, previous index) with every config setting; every select of the history is checked: usable link exists => Some; non-trivial = a select where a usable link exists and every usable link has a gate engaged (latched/pulled/weak/loss-degraded/capped) or another link is excluded; gate-combination histogram in classes",
        ctx.tier.pick(150_000, 2_000_000),
        || strategy(mo, None),
        |_| check,
    );
    crate::props::c03_shell::run(ctx);
    "exploration"
}

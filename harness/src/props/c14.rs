//! C14 — keepalives flow on every live uplink and RTT comes only from echoes.
//! Simulated housekeeping on the real shell with per-link echo policies; frame
//! decode vs pre-tick snapshot; sampling rule; smoothed RTT sanity. A pure tier
//! feeds arbitrary sample streams to the RTT tracker.

use proptest::collection::vec;
use proptest::prelude::*;
use serde::{Deserialize, Serialize};
use serde_json::json;
use srtla_core::ConfigSnapshot;
use srtla_core::connection::RttTracker;

use crate::engine::shell::Shell;
use crate::refmodel::codec as rc;
use crate::rt::{CheckResult, Ctx, Obs, idx};

#[derive(Debug, Clone, Hash, Serialize, Deserialize)]
pub enum Op {
    /// housekeeping tick after `1000 + jitter` ms
    Tick(u16),
    /// echo on link with mutation selector and delay before delivery
    Echo(u16, u8, u16, Vec<u8>),
    Inbound(u16),
    Client(u8),
    Flush,
    Nak(u16, u8),
    SrtlaAck(u16, u8),
    Reg3(u16),
    /// receiver rejects the link (soft reset through the real REG_ERR path)
    RegErr(u16),
    /// silence: advance without inbound (may time links out)
    Silence(u16),
    /// the link's measured rate becomes a whole number of bytes per second (the field the keepalive reads)
    Rate(u16, u32),
}

#[derive(Debug, Clone, Hash, Serialize, Deserialize)]
pub struct Case {
    pub n_links: u8,
    pub classic: bool,
    pub timeout: u8,
    pub ops: Vec<Op>,
    /// one link never registers and cannot send: its socket is shut and re-opening it is refused from the start
    /// (housekeeping retries it on every pass and every retry fails half-way)
    #[serde(default)]
    pub dead: Option<u8>,
}

const TIMEOUTS: &[u64] = &[5000, 5000, 2500, 15_000, 1000];

pub fn strategy(max_ops: usize) -> impl Strategy<Value = Case> {
    let op = prop_oneof![
        14 => prop_oneof![6 => Just(0u16), 4 => 0u16..=500, 2 => Just(500u16), 3 => proptest::sample::select(vec![501u16, 502, 503])].prop_map(Op::Tick),
        10 => (any::<u16>(), 0u8..10, prop_oneof![3 => 0u16..300, 1 => Just(0u16), 1 => 0u16..12_000], vec(any::<u8>(), 0..12)).prop_map(|(l, m, d, t)| Op::Echo(l, m, d, t)),
        6 => any::<u16>().prop_map(Op::Inbound),
        3 => (1u8..60).prop_map(Op::Client),
        2 => Just(Op::Flush),
        2 => (any::<u16>(), 1u8..8).prop_map(|(l, k)| Op::Nak(l, k)),
        2 => (any::<u16>(), 1u8..12).prop_map(|(l, k)| Op::SrtlaAck(l, k)),
        1 => any::<u16>().prop_map(Op::Reg3),
        1 => any::<u16>().prop_map(Op::RegErr),
        1 => prop_oneof![100u16..6000, Just(16_000u16)].prop_map(Op::Silence),
        3 => (any::<u16>(), prop_oneof![4 => Just(500_080u32), 4 => Just(62_510), 4 => 1u32..4_000_000, 4 => 1u32..200_000, 1 => Just(600_000_000u32), 1 => Just(536_870_912), 1 => 500_000_000u32..4_000_000_000]).prop_map(|(l, r)| Op::Rate(l, r)),
    ];
    (1u8..=4, any::<bool>(), 0u8..TIMEOUTS.len() as u8, vec(op, 1..max_ops), prop::option::weighted(0.2, 0u8..4))
        .prop_map(|(n_links, classic, timeout, ops, dead)| Case { n_links, classic, timeout, ops, dead: dead.filter(|_| n_links >= 2).map(|d| d % n_links) })
}

#[derive(Clone, Default)]
struct LinkMon {
    last_ka: Option<u64>,
    eligible_since: Option<u64>,
    /// a keepalive left on this link since its last reset (so a probe can be outstanding at all)
    ka_since_reset: bool,
}

pub fn check(case: &Case, obs: &mut Obs) -> CheckResult {
    let n = case.n_links as usize;
    let addrs: Vec<u8> = (0..n as u8).collect();
    let mut cfg = ConfigSnapshot::default();
    cfg.conn_timeout_ms = TIMEOUTS[case.timeout as usize % TIMEOUTS.len()];
    if case.classic {
        cfg.mode = srtla_core::SchedulingMode::Classic;
    }
    let timeout = cfg.conn_timeout_ms;
    let mut sh = Shell::new(&addrs, cfg);
    let dead = case.dead.map(|d| d as usize).filter(|d| *d < n && n >= 2);
    for i in 0..n {
        if Some(i) == dead {
            sh.break_socket(i);
            sh.refuse_bind(i, true);
            obs.class(if i + 1 < n { "dead-unregistered-link-ahead-of-a-live-one" } else { "dead-unregistered-link-last" });
        } else {
            sh.deliver_reg3(i);
        }
    }
    let _ = sh.drain_wire();
    let _ = sh.drain_client();
    let mut mons: Vec<LinkMon> = vec![LinkMon { last_ka: None, eligible_since: Some(sh.now()), ka_since_reset: false }; n];
    if let Some(d) = dead {
        mons[d].eligible_since = None;
    }
    let mut max_spacing: u64 = 1000;
    // establishment counts as tick 0: the timer runs from start-up
    let mut last_tick: Option<u64> = Some(sh.now());
    let mut seq: u32 = 10;
    let mut accepted = 0u32;
    let mut rejected = 0u32;
    let mut resets = 0u32;
    let mut frames = 0u64;

    let live = |sh: &Shell, i: usize| -> bool {
        let c = &sh.st.conns[i];
        c.connected && c.last_received.is_some_and(|lr| sh.now().saturating_sub(lr) < c.verif_conn_timeout_ms())
    };

    for (oi, op) in case.ops.iter().enumerate() {
        match op {
            Op::Silence(d) => sh.advance(*d as u64),
            Op::Inbound(l) => sh.uplink_pkt(idx(*l, n), &[0x80, 0x06, 0, 0, 0, 0, 0, 0]),
            Op::Flush => sh.flush_tick(),
            Op::Reg3(l) => {
                let li = idx(*l, n);
                if Some(li) == dead {
                    continue; // the receiver never hears from it, so it never answers it
                }
                sh.deliver_reg3(li);
                mons[li].eligible_since = Some(sh.now());
                mons[li].last_ka = None;
            }
            Op::RegErr(l) => {
                let li = idx(*l, n);
                sh.uplink_pkt(li, &[0x92, 0x10]);
                mons[li].eligible_since = None;
                mons[li].last_ka = None;
                mons[li].ka_since_reset = false;
                resets += 1;
                obs.class("reg-err-reset");
            }
            Op::Client(k) => {
                for _ in 0..*k {
                    seq += 1;
                    let mut p = vec![0u8; 200];
                    p[0..4].copy_from_slice(&seq.to_be_bytes());
                    sh.client_pkt(&p);
                }
            }
            Op::Nak(l, k) | Op::SrtlaAck(l, k) => {
                let li = idx(*l, n);
                let mut seqs: Vec<i32> = sh.st.conns[li].packet_log.keys().copied().collect();
                seqs.sort();
                seqs.truncate(*k as usize);
                let mut p = if matches!(op, Op::Nak(..)) { vec![0x80, 0x03, 0, 0] } else { vec![0x91, 0, 0, 0] };
                for s in &seqs {
                    p.extend_from_slice(&(*s as u32).to_be_bytes());
                }
                p.extend_from_slice(&0x7000_0000u32.to_be_bytes());
                sh.uplink_pkt(li, &p);
            }
            Op::Rate(l, bytes_per_s) => {
                let li = idx(*l, n);
                sh.st.conns[li].bitrate.current_bitrate_bps = *bytes_per_s as f64 * 8.0;
                obs.class("rate-whole-bytes-per-second");
            }
            Op::Tick(j) => {
                // 0..=500: the period plus jitter; 501..503: a tick that comes 1, 2 or 10 ms early (the timer's
                // millisecond granularity: such a tick finds the last keepalive less than a second old)
                let dt = match *j {
                    501 => 999,
                    502 => 998,
                    503 => 990,
                    j => 1000 + (j as u64).min(500),
                };
                if dt < 1000 {
                    obs.class("early-tick");
                }
                // spacing is measured between consecutive ticks (other ops may add time)
                sh.advance(dt);
                let now = sh.now();
                if let Some(lt) = last_tick {
                    max_spacing = max_spacing.max(now - lt);
                }
                last_tick = Some(now);
                // pre-tick snapshot
                let snap: Vec<(bool, bool, i32, i32, i32, f64, u64)> = (0..n)
                    .map(|i| {
                        let c = &sh.st.conns[i];
                        (c.connected, live(&sh, i), c.window, c.in_flight_packets, c.total_nak_count(), c.bitrate.current_bitrate_bps, c.conn_id)
                    })
                    .collect();
                let socks: Vec<usize> = (0..n).map(|i| sh.st.conn_io.get(&sh.st.conns[i].conn_id).map(|io| std::sync::Arc::as_ptr(&io.socket) as usize).unwrap_or(0)).collect();
                let _ = sh.drain_wire();
                sh.housekeeping();
                let wire = sh.drain_wire();
                for i in 0..n {
                    let a = sh.addr_of(i);
                    let kas: Vec<&Vec<u8>> = wire.iter().filter(|e| e.addr == a && rc::packet_type(&e.bytes) == Some(rc::T_KEEPALIVE)).map(|e| &e.bytes).collect();
                    let (conn0, live0, w0, f0, n0, bps0, cid) = snap[i];
                    let sock_now = sh.st.conn_io.get(&sh.st.conns[i].conn_id).map(|io| std::sync::Arc::as_ptr(&io.socket) as usize).unwrap_or(0);
                    if sock_now != socks[i] || (conn0 && !sh.st.conns[i].connected) {
                        resets += 1;
                        mons[i].eligible_since = None;
                        mons[i].last_ka = None;
                        mons[i].ka_since_reset = false;
                        obs.class("link-reset-in-tick");
                    }
                    for f in &kas {
                        frames += 1;
                        vensure!(f.len() == 38, "keepalive-length", "op {oi}: keepalive frame of {} bytes on link {i}", f.len());
                        vensure!(rc::keepalive_ts(f) == Some(now), "keepalive-timestamp", "op {oi}: keepalive timestamp {:?} != tick time {}", rc::keepalive_ts(f), now);
                        let info = rc::keepalive_info(f);
                        vensure!(info.is_some(), "keepalive-magic", "op {oi}: keepalive frame lacks the extended magic/version");
                        let info = info.unwrap();
                        let exp_rate = (bps0 / 8.0) as u32;
                        vensure!(
                            info.window == w0 && info.in_flight == f0 && info.nak_count == n0 as u32 && info.rate == exp_rate,
                            "keepalive-telemetry",
                            "op {oi}: link {i} keepalive telemetry (window {}, in-flight {}, naks {}, rate {}) != pre-tick state (window {w0}, in-flight {f0}, naks {n0}, rate {exp_rate})",
                            info.window,
                            info.in_flight,
                            info.nak_count,
                            info.rate
                        );
                        vensure!(info.conn_id == cid as u32, "keepalive-telemetry", "op {oi}: link {i} keepalive conn id {:#x} != {:#x}", info.conn_id, cid as u32);
                        vensure!(conn0, "keepalive-on-disconnected", "op {oi}: keepalive sent on link {i} which was not connected before the tick");
                    }
                    // cadence
                    let m = &mut mons[i];
                    if !kas.is_empty() {
                        m.ka_since_reset = true;
                        if let Some(base) = m.last_ka.or(m.eligible_since) {
                            vensure!(now - base <= 2 * max_spacing, "keepalive-gap", "op {oi}: link {i} keepalive gap {} ms > 2 x {} ms", now - base, max_spacing);
                        }
                        m.last_ka = Some(now);
                    } else if live0 && live(&sh, i) && sh.st.conns[i].connected {
                        // eligible through the whole tick but silent
                        if m.eligible_since.is_none() {
                            m.eligible_since = Some(now);
                        }
                        let base = m.last_ka.or(m.eligible_since).unwrap();
                        vensure!(now - base <= 2 * max_spacing, "keepalive-gap", "op {oi}: live link {i} has sent no keepalive for {} ms (> 2 x {} ms)", now - base, max_spacing);
                    } else if !live0 {
                        m.eligible_since = None;
                        m.last_ka = None;
                    }
                    if m.eligible_since.is_none() && live(&sh, i) && sh.st.conns[i].connected {
                        m.eligible_since = Some(now);
                    }
                }
            }
            Op::Echo(l, m, delay, tail) => {
                let li = idx(*l, n);
                let a = sh.addr_of(li);
                let Some(base) = sh.st.last_keepalive.get(&a).cloned() else { continue };
                sh.advance(*delay as u64);
                let now = sh.now();
                let mut b = base.clone();
                match m {
                    0 => {}
                    1 => b.truncate(10),
                    2 => {
                        b.truncate(10);
                        b.extend_from_slice(tail);
                    }
                    3 => b.extend_from_slice(tail),
                    4 => b.truncate(2 + (tail.len() % 8)),
                    5 => b[2..10].copy_from_slice(&(now + 5).to_be_bytes()),
                    6 => b[2..10].copy_from_slice(&0u64.to_be_bytes()),
                    7 => b[2..10].copy_from_slice(&now.to_be_bytes()),
                    8 => {}
                    _ => {}
                }
                let copies = if *m == 8 { 2 } else { 1 };
                for _ in 0..copies {
                    let c = &sh.st.conns[li];
                    let waiting = c.rtt.waiting_for_keepalive_response;
                    let before = (c.rtt.last_rtt_measurement_ms, format!("{:?}", c.rtt.kalman_rtt), c.rtt.prev_rtt_ms.to_bits(), c.last_ack_or_rtt_sample_ms);
                    let ts = rc::keepalive_ts(&b);
                    let should = waiting && ts.is_some_and(|t| t < now && now - t <= 10_000);
                    sh.uplink_pkt(li, &b);
                    let c = &sh.st.conns[li];
                    let after = (c.rtt.last_rtt_measurement_ms, format!("{:?}", c.rtt.kalman_rtt), c.rtt.prev_rtt_ms.to_bits(), c.last_ack_or_rtt_sample_ms);
                    let sampled = after.0 != before.0 || after.1 != before.1 || after.2 != before.2;
                    if sampled {
                        vensure!(mons[li].ka_since_reset, "sample-without-probe", "op {oi}: echo on link {li} took an RTT sample although no keepalive has been sent on it since its last reset");
                    }
                    if should {
                        // a sample at the same instant as the previous one leaves the stamp equal, but the Kalman state moves
                        vensure!(sampled || before.0 == now, "echo-not-sampled", "op {oi}: valid echo (waiting, rtt {} ms) on link {li} took no RTT sample", now - ts.unwrap());
                        accepted += 1;
                    } else {
                        vensure!(!sampled, "echo-sampled-wrongly", "op {oi}: echo on link {li} took an RTT sample although waiting={waiting}, len={}, ts={:?}, now={now}", b.len(), ts);
                        rejected += 1;
                    }
                }
            }
        }
        for (i, c) in sh.st.conns.iter().enumerate() {
            let r = c.get_smooth_rtt_ms();
            vensure!(r.is_finite() && r >= 0.0, "smoothed-rtt-invalid", "op {oi}: link {i} smoothed RTT {r}");
            vensure!(c.rtt.kalman_rtt.value().is_finite() && c.rtt.kalman_rtt.velocity().is_finite(), "kalman-not-finite", "op {oi}: link {i} Kalman state not finite");
        }
        let _ = sh.drain_client();
    }
    if accepted > 0 {
        obs.class("echo-accepted");
    }
    if rejected > 0 {
        obs.class("echo-rejected");
    }
    obs.count("keepalive-frames-decoded", frames);
    obs.nontrivial = accepted > 0 && rejected > 0 && resets > 0;
    if obs.nontrivial {
        obs.sample = Some(json!({"links": n, "timeout": timeout, "n_ops": case.ops.len(), "frames": frames, "accepted": accepted, "rejected": rejected, "resets": resets,
            "first_ops": format!("{:.300}", format!("{:?}", &case.ops[..case.ops.len().min(6)]))}));
    }
    Ok(())
}

// ------------------------------------------------------------------ pure tier

#[derive(Debug, Clone, Hash, Serialize, Deserialize)]
pub struct Stream {
    pub samples: Vec<u16>,
}

fn stream_strategy(max: usize) -> impl Strategy<Value = Stream> {
    let s = prop_oneof![
        3 => proptest::sample::select(vec![1u16, 2, 10, 50, 200, 1000, 5000, 9999, 10_000]),
        2 => 1u16..=10_000,
        1 => 1u16..100,
    ];
    // blocks of equal samples produce the step patterns that make the filter overshoot
    vec((s, 1u8..30), 1..max).prop_map(|blocks| Stream { samples: blocks.into_iter().flat_map(|(v, k)| std::iter::repeat_n(v, k as usize)).collect() })
}

pub fn check_stream(s: &Stream, obs: &mut Obs) -> CheckResult {
    let mut t = RttTracker::default();
    let mut c = crate::engine::core::new_link(0, crate::engine::core::T0);
    let mut went_negative = false;
    for (i, v) in s.samples.iter().enumerate() {
        t.update_estimate(*v as u64, crate::engine::core::T0 + i as u64);
        c.rtt.update_estimate(*v as u64, crate::engine::core::T0 + i as u64);
        let raw = t.kalman_rtt.value();
        vensure!(raw.is_finite() && t.kalman_rtt.velocity().is_finite(), "kalman-not-finite", "sample {i}: Kalman state {raw}");
        if raw < 0.0 {
            went_negative = true;
        }
        let sm = c.get_smooth_rtt_ms();
        vensure!(sm.is_finite() && sm >= 0.0, "smoothed-rtt-invalid", "sample {i}: smoothed RTT {sm}");
        vensure!(t.rtt_min_ms.is_finite() && t.rtt_jitter_ms.is_finite() && t.rtt_masd_ms.is_finite(), "rtt-stat-not-finite", "sample {i}: RTT statistics not finite");
    }
    if went_negative {
        obs.class("raw-filter-overshoot-negative");
    }
    obs.nontrivial = s.samples.len() >= 3 && s.samples.iter().any(|x| *x != s.samples[0]);
    Ok(())
}

pub fn run(ctx: &Ctx) -> &'static str {
    ctx.assume("'housekeeping period' is the largest spacing between consecutive ticks of the run (ticks are >= 1000 ms apart, jitter <= 500 ms plus the time other ops add); a link is 'live' when connected and heard within the configured timeout");
    ctx.assume("telemetry is compared with the link's fields snapshotted immediately before the tick; rate = (bits per second / 8) as u32");
    ctx.assume("'sample taken' = the RTT tracker's measurement stamp, Kalman state or previous-sample field changed");
    ctx.assume("'a probe is outstanding' is taken from the RTT tracker's own waiting flag (the harness additionally requires that a keepalive left on the link since its last reset); which echoes use an outstanding probe up is therefore not judged");
    for (file, body) in ctx.replay_files() {
        let done = ctx.replay_case::<Case, _>("housekeeping", &file, &body, check) || ctx.replay_case::<Stream, _>("sample-streams", &file, &body, check_stream);
        if !done {
            eprintln!("replay {}: unknown part", file.display());
        }
    }
    if ctx.replay.is_some() {
        return "exploration";
    }
    let mo = ctx.tier.pick(80, 300);
    ctx.explore(
        "housekeeping",
        "timed histories of real housekeeping ticks (spacing 1000..1500 ms), echoes built from the last keepalive on the wire (verbatim, 10-byte, tail-extended, truncated 2..9, future/zero/same-ms timestamps, late, duplicated), inbound, traffic, NAKs, silence and resets on 1..4 real links; keepalive cadence, 38-byte frame layout and telemetry vs pre-tick snapshot, echo sampling rule, smoothed RTT finite and >= 0 after every op; non-trivial = >= 1 accepted echo and >= 1 rejected echo and >= 1 link reset",
        ctx.tier.pick(20_000, 250_000),
        || strategy(mo),
        |_| check,
    );
    ctx.explore(
        "sample-streams",
        "arbitrary RTT sample streams 1..10000 ms in blocks (step patterns that overshoot the Kalman filter) into the real RttTracker: smoothed RTT finite and >= 0, all statistics finite; non-trivial = stream with a step",
        ctx.tier.pick(20_000, 500_000),
        || stream_strategy(40),
        |_| check_stream,
    );
    crate::props::e2e::run(ctx, crate::props::e2e::Phase::Keepalive, ctx.tier.pick(1, 3));
    "exploration"
}

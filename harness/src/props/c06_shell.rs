//! C06 shell tier — "classic mode never applies time-based recovery", decided
//! on the real `handle_housekeeping` with the mode chosen per tick.

use std::path::Path;

use proptest::collection::vec;
use proptest::prelude::*;
use serde::{Deserialize, Serialize};
use serde_json::{Value, json};
use srtla_core::{ConfigSnapshot, SchedulingMode};

use crate::engine::core::delta_ms;
use crate::engine::shell::Shell;
use crate::rt::{CheckResult, Ctx, Obs};

#[derive(Debug, Clone, Hash, Serialize, Deserialize)]
pub struct Tick {
    pub dt: u32,
    pub classic: bool,
    /// per link: refresh liveness with an inbound datagram just before the tick
    pub inbound: Vec<bool>,
}

#[derive(Debug, Clone, Hash, Serialize, Deserialize)]
pub struct Case {
    /// per link: number of NAKs charged before the ticks start (depresses the window)
    pub naks: Vec<u8>,
    pub ticks: Vec<Tick>,
    /// one link is made stall-gated before the ticks start (loaded, silent for so many ms beside a healthy link,
    /// then a routing decision through the real handle_srt_packet): the stall guard also runs in classic mode
    #[serde(default)]
    pub gate: Option<(u8, u16)>,
}

pub fn strategy() -> impl Strategy<Value = Case> {
    (strategy_plain(), prop::option::weighted(0.4, (any::<u8>(), prop_oneof![Just(300u16), Just(3001), 250u16..4500]))).prop_map(|(mut c, g)| {
        if c.naks.len() >= 2 {
            c.gate = g;
        }
        c
    })
}

fn strategy_plain() -> impl Strategy<Value = Case> {
    (1usize..=3).prop_flat_map(|n| {
        (
            vec(prop_oneof![Just(0u8), 1u8..40, 150u8..200], n),
            vec(
                (delta_ms(), prop::bool::weighted(0.7), vec(prop::bool::weighted(0.85), n))
                    .prop_map(|(dt, classic, inbound)| Tick { dt, classic, inbound }),
                1..14,
            ),
        )
            .prop_map(|(naks, ticks)| Case { naks, ticks, gate: None })
    })
}

pub fn check(case: &Case, obs: &mut Obs) -> CheckResult {
    let n = case.naks.len();
    let addrs: Vec<u8> = (0..n as u8).collect();
    let mut sh = Shell::new(&addrs, ConfigSnapshot::default());
    sh.establish_all();
    // depress windows with real NAK packets for sequence numbers the link holds
    let mut seq = 100u32;
    for (i, k) in case.naks.iter().enumerate() {
        for _ in 0..*k {
            sh.st.conns[i].register_packet(seq as i32, sh.st.now);
            let mut nak = vec![0x80, 0x03, 0, 0];
            nak.extend_from_slice(&seq.to_be_bytes());
            sh.uplink_pkt(i, &nak);
            seq += 1;
        }
    }
    let _ = sh.drain_client();
    if let Some((g, silent_ms)) = case.gate
        && n >= 2
    {
        use srtla_send::sender::verif_hooks as vh;
        let v = g as usize % n;
        let pkt = |seq: u32| -> Vec<u8> {
            let mut p = vec![0u8; 40];
            p[0..4].copy_from_slice(&seq.to_be_bytes());
            p[4] = 0xc0;
            p
        };
        let t = sh.now();
        for k in 0..40u32 {
            let p = pkt(50_000 + k);
            let Shell { rt, st } = &mut sh;
            rt.block_on(vh::forward_via_connection(v, &p, Some(50_000 + k), &mut st.conns, &st.conn_io, &mut st.last_selected, &mut st.seq_tracker, t));
        }
        sh.flush_tick();
        sh.advance(silent_ms as u64);
        for h in 0..n {
            if h != v {
                sh.uplink_pkt(h, &[0x80, 0x06, 0, 0, 0, 0, 0, 0]);
            }
        }
        sh.client_pkt(&pkt(60_000));
        sh.flush_tick();
        let _ = sh.drain_wire();
        if sh.st.conns[v].is_stall_gated() {
            obs.class("a-link-is-stall-gated-during-the-ticks");
        }
    }
    let mut classic_ticks = 0u32;
    let mut enhanced_raised = false;
    let mut depressed_seen = false;
    for (t, tick) in case.ticks.iter().enumerate() {
        sh.advance(tick.dt as u64);
        for (i, inb) in tick.inbound.iter().enumerate() {
            if *inb && i < sh.st.conns.len() {
                // an SRT control datagram (type 0x8006) refreshes liveness only
                sh.uplink_pkt(i, &[0x80, 0x06, 0, 0, 0, 0, 0, 0]);
            }
        }
        sh.st.cfg.mode = if tick.classic { SchedulingMode::Classic } else { SchedulingMode::Enhanced };
        let before: Vec<(i32, bool)> = sh.st.conns.iter().map(|c| (c.window, c.connected)).collect();
        sh.housekeeping_core();
        let _ = sh.drain_wire();
        let _ = sh.drain_client();
        for (i, c) in sh.st.conns.iter().enumerate() {
            let (w0, conn0) = before[i];
            let stayed_up = conn0 && c.connected;
            if w0 < 60_000 && stayed_up {
                depressed_seen = true;
            }
            if tick.classic {
                classic_ticks += 1;
                if stayed_up {
                    vensure!(c.window == w0, "classic-time-recovery", "tick {t}: classic housekeeping moved link {i} window {} -> {}", w0, c.window);
                }
            } else if stayed_up {
                vensure!(c.window >= w0, "recovery-decreased", "tick {t}: enhanced housekeeping decreased link {i} window {} -> {}", w0, c.window);
                if c.window > w0 {
                    enhanced_raised = true;
                }
            }
            vensure!((1000..=60_000).contains(&c.window), "window-range", "tick {t}: link {i} window {} out of range", c.window);
            if !stayed_up && !c.connected && conn0 {
                vensure!(c.window == 20_000, "reset-window", "tick {t}: link {i} torn down with window {}", c.window);
                obs.class("teardown-in-tick");
            }
        }
    }
    if enhanced_raised {
        obs.class("enhanced-tick-raised-window");
    }
    if classic_ticks > 0 && depressed_seen {
        obs.class("classic-tick-on-depressed-window");
    }
    obs.nontrivial = classic_ticks > 0 && depressed_seen;
    if obs.nontrivial {
        obs.sample = Some(json!({"naks": case.naks, "ticks": case.ticks.iter().map(|t| json!([t.dt, t.classic])).collect::<Vec<_>>() }));
    }
    Ok(())
}

pub fn replay(ctx: &Ctx, file: &Path, body: &Value) -> bool {
    ctx.replay_case::<Case, _>("housekeeping-classic", file, body, check)
}

pub fn run(ctx: &Ctx) {
    ctx.explore(
        "housekeeping-classic",
        "real handle_housekeeping ticks (mode chosen per tick, arbitrary spacing) on 1..3 real links whose windows were depressed by real NAK packets; classic ticks must leave every window of a link that stays connected unchanged; non-trivial = >=1 classic tick on a link below 60000 that stayed connected; enhanced ticks that raised a window are counted to show the check is not vacuous",
        ctx.tier.pick(10_000, 150_000),
        strategy,
        |_| check,
    );
}

//! C11 — enhanced selection is stable, hysteretic and respects its gates.
//! Independent score recomputation on generated link-state histories.

use serde_json::json;
use srtla_core::connection::{LinkPhase, SrtlaConnection};
use srtla_core::selection::enhanced::in_flight_cap_exceeded;
use srtla_core::selection::select_connection_idx;

use crate::engine::selstate::{SelCase, SelOp, World, strategy};
use crate::rt::{CheckResult, Ctx, Obs};

const REL: f64 = 1e-9;

fn ge_band(a: f64, b: f64) -> Option<bool> {
    // Some(true) a>=b clearly, Some(false) a<b clearly, None inside the band
    let tol = REL * a.abs().max(b.abs()).max(1e-300);
    if (a - b).abs() <= tol { None } else { Some(a > b) }
}

/// The documented quality multiplier.
fn quality_formula(c: &SrtlaConnection, now: u64) -> f64 {
    let age = now.saturating_sub(c.connection_established_ms());
    if age < 30_000 {
        return if c.total_nak_count() == 0 { 1.1 } else { 0.98 };
    }
    let base = match c.time_since_last_nak_ms(now) {
        Some(nak_age) => {
            let mut m = 1.0 - 0.5 * (-(nak_age as f64) / 2000.0).exp();
            if c.nak_burst_count() >= 5 && nak_age < 3000 {
                m *= 0.7;
            }
            m
        }
        None => {
            if c.total_nak_count() == 0 {
                1.1
            } else {
                1.0
            }
        }
    };
    let rtt = c.get_smooth_rtt_ms();
    let bonus = if rtt <= 0.0 { 1.0 } else { (200.0 / rtt.max(50.0)).clamp(1.0, 1.03) };
    base * bonus
}

fn phase_weight(c: &SrtlaConnection) -> f64 {
    match c.phase {
        LinkPhase::Registering => 0.0,
        LinkPhase::Warming { .. } => 0.8,
        LinkPhase::Live | LinkPhase::Degraded => 1.0,
    }
}

/// "Over its in-flight cap", written from the documented formula (independently of the code's predicate):
/// cap = max(1, floor(target_bps x rtt_min_s / 8 x 1.5 / 1316)) packets, inactive without a published target,
/// rtt_min falls back to 1 ms until a baseline exists; over the cap iff in-flight packets > cap. Packets that are
/// still queued for the next flush are not in flight.
fn over_cap(c: &SrtlaConnection) -> bool {
    if c.cc_target_bps == 0 {
        return false;
    }
    let r = c.get_rtt_min_ms();
    let rtt_ms = if r.is_finite() && r > 0.0 { r } else { 1.0 };
    let cap = ((c.cc_target_bps as f64) * (rtt_ms / 1000.0) / 8.0 * 1.5 / 1316.0).floor().max(1.0);
    (c.in_flight_packets as f64) > cap
}

fn cap_factor(c: &SrtlaConnection) -> f64 {
    let target = c.cc_target_bps;
    let measured = c.bitrate.current_bitrate_bps;
    if target == 0 || measured <= 0.0 {
        return 1.0;
    }
    let t = target as f64;
    ((t - measured).max(0.0) / t).clamp(0.1, 1.0)
}

pub fn check(case: &SelCase, obs: &mut Obs) -> CheckResult {
    let mut w = World::new(case);
    let mut nontrivial = false;
    let r = w.run(&case.ops, |w, last| {
        if w.cfg.mode.is_classic() {
            let res = select_connection_idx(&mut w.links, last, w.now, &w.cfg);
            if let Some(r) = res {
                w.last_sel = Some(r);
            }
            return Ok(());
        }
        let now = w.now;
        let step = w.step;
        let quality_on = w.cfg.effective_quality_enabled();
        let cache_before: Vec<(f64, u64)> = w.links.iter().map(|c| c.verif_quality_cache()).collect();
        let res = select_connection_idx(&mut w.links, last, now, &w.cfg);
        let n = w.links.len();
        // --- independent recomputation (gate flags are read after the call, as computed by it)
        let timeout = w.cfg.conn_timeout_ms;
        let eligible: Vec<bool> = (0..n)
            .map(|i| {
                let c = &w.links[i];
                let timed_out = if c.connected {
                    c.last_received.is_some_and(|lr| now.saturating_sub(lr) >= timeout)
                } else {
                    c.is_timed_out(now)
                };
                !timed_out && !matches!(c.phase, LinkPhase::Registering) && !c.is_stall_gated()
            })
            .collect();
        let capped: Vec<bool> = w.links.iter().map(over_cap).collect();
        for (i, c) in w.links.iter().enumerate() {
            if capped[i] != in_flight_cap_exceeded(c) {
                // the code's own predicate disagrees with the documented formula
                return crate::rt::viol(
                    "cap-predicate",
                    format!("step {step}: link {i} (target {} bit/s, rtt_min {} ms, in flight {}, queued {}): the code says over-cap={}, the documented formula says {}", c.cc_target_bps, c.get_rtt_min_ms(), c.in_flight_packets, c.batch_sender.queued_count(), in_flight_cap_exceeded(c), capped[i]),
                );
            }
        }
        let any_unconstrained = (0..n).any(|i| eligible[i] && !w.links[i].weak && !w.links[i].loss_degraded && !capped[i]);
        let scored: Vec<bool> = (0..n).map(|i| eligible[i] && !(any_unconstrained && capped[i])).collect();
        let mut scores: Vec<Option<f64>> = vec![None; n];
        for i in 0..n {
            if !scored[i] {
                continue;
            }
            let c = &w.links[i];
            let raw = if c.connected { (c.window as i64 / (c.in_flight_packets as i64 + c.batch_sender.queued_count() as i64 + 1).max(1)) as f64 } else { -1.0 };
            let pw = phase_weight(c);
            let (q_used, q_stamp) = c.verif_quality_cache();
            let q = if quality_on { q_used } else { 1.0 };
            let cf = cap_factor(c);
            let gate = if any_unconstrained && (c.weak || c.loss_degraded) { 0.02 } else { 1.0 };
            // ranges
            vensure!(cf.is_finite() && (0.1..=1.0).contains(&cf), "cap-factor-range", "step {step}: soft-cap factor {cf}");
            if quality_on {
                vensure!(q_used.is_finite() && q_used >= 0.35 - 1e-12 && q_used <= 1.1 * 1.03 + 1e-12, "quality-range", "step {step}: link {i} quality multiplier {q_used} outside [0.35, 1.133]");
                if q_stamp == now && cache_before[i].1 != now {
                    let f = quality_formula(c, now);
                    vensure!((q_used - f).abs() <= 1e-9 * f.abs().max(1.0), "quality-formula", "step {step}: link {i} refreshed quality {q_used} != documented formula {f}");
                    obs.class("quality-refreshed");
                } else if q_stamp != now {
                    vensure!(now.saturating_sub(q_stamp) < 50, "quality-cache-stale", "step {step}: scored link {i} used a quality cache {} ms old", now.saturating_sub(q_stamp));
                }
            }
            let s = raw * pw * q * cf * gate;
            vensure!(s.is_finite(), "score-not-finite", "step {step}: link {i} score {s}");
            scores[i] = Some(s);
            if matches!(c.phase, LinkPhase::Warming { .. }) {
                obs.class("warming-link-scored");
            }
            if gate < 1.0 {
                obs.class("quality-gated-link-scored");
            }
        }
        let best = scores.iter().flatten().cloned().fold(f64::NEG_INFINITY, f64::max);
        match res {
            None => {
                vensure!(!scores.iter().flatten().any(|s| *s > -1.0 + 1e-9), "none-with-scored-link", "step {step}: None although scored links exist: {:?}", scores);
            }
            Some(r) => {
                vensure!(r < n, "select-out-of-range", "step {step}: index {r}");
                // cap: never a capped link while an unconstrained link exists
                vensure!(!(any_unconstrained && capped[r]), "capped-link-chosen", "step {step}: link {r} is over its in-flight cap and an unconstrained link exists");
                vensure!(eligible[r], "ineligible-link-chosen", "step {step}: link {r} is timed out / registering / stall-gated");
                let sr = scores[r];
                vensure!(sr.is_some(), "unscored-link-chosen", "step {step}: link {r} was not scored");
                let sr = sr.unwrap();
                let held = last == Some(r);
                // arg-max validity
                if !held {
                    vensure!(ge_band(sr, best) != Some(false), "not-argmax", "step {step}: chose link {r} score {sr} but best score is {best} ({:?})", scores);
                }
                // hysteresis
                if let Some(l) = last
                    && l < n
                    && r != l
                    && let Some(sl) = scores[l]
                {
                    // last was scored, so leaving it needs a 10% better score
                    vensure!(ge_band(sr, sl * 1.10) != Some(false), "left-without-10pct", "step {step}: left link {l} (score {sl}) for link {r} (score {sr}) < 1.10x");
                    obs.class("switched-with-10pct");
                }
                if held && ge_band(best, sr * 1.10) == Some(true) {
                    // held although another link is >= 10% better: allowed by the statement? No: the
                    // statement only constrains leaving. Count it.
                    obs.class("held-despite-better");
                }
                if held && scores.iter().flatten().any(|s| *s > sr) {
                    obs.class("hysteresis-held");
                }
                // idempotence: same state, same previous index -> same answer; previous := result -> result
                let again = select_connection_idx(&mut w.links, last, now, &w.cfg);
                vensure!(again == res, "not-idempotent", "step {step}: re-running selection at the same instant gave {:?} then {:?}", res, again);
                let stay = select_connection_idx(&mut w.links, Some(r), now, &w.cfg);
                vensure!(stay == Some(r), "self-oscillation", "step {step}: with previous := {r} selection returned {:?}", stay);
                w.last_sel = Some(r);
            }
        }
        // non-triviality
        let vals: Vec<f64> = scores.iter().flatten().cloned().collect();
        if vals.len() >= 2 {
            let mut v = vals.clone();
            v.sort_by(|a, b| b.partial_cmp(a).unwrap());
            if v[0] > 0.0 && (v[0] - v[1]) / v[0] < 0.25 {
                nontrivial = true;
                obs.class("close-scores");
            }
            if v[0] == v[1] {
                obs.class("tie");
            }
        }
        // a gate/cap engaged on the best raw-score link
        if let Some((bi, _)) = (0..n).filter(|i| eligible[*i]).map(|i| (i, w.links[i].get_score())).max_by_key(|x| x.1)
            && (w.links[bi].weak || w.links[bi].loss_degraded || capped[bi])
            && any_unconstrained
        {
            nontrivial = true;
            obs.class("gate-on-best-raw-link");
        }
        if last.is_some_and(|l| l < n && !scored[l]) {
            obs.class("previous-link-skipped");
        }
        Ok(())
    });
    obs.nontrivial = nontrivial;
    if nontrivial {
        obs.sample = Some(json!({"links": case.n_links, "init": case.init, "quality": case.quality, "guard": case.guard, "n_ops": case.ops.len(), "first_ops": format!("{:?}", &case.ops[..case.ops.len().min(10)])}));
    }
    let _ = SelOp::CumAck;
    r
}

pub fn run(ctx: &Ctx) -> &'static str {
    ctx.assume("score_i = floor(window/(in-flight+queued+1)) x phase weight (warming 0.8) x quality multiplier actually used (read through the hook accessor; checked against the documented formula whenever it was refreshed at this instant, and to be < 50 ms old otherwise) x clamp((target-measured)/target, 0.1, 1) x 0.02 if weak/loss-degraded while an unconstrained link exists");
    ctx.assume("'over its in-flight cap' is computed from the documented formula (cap = max(1, floor(target x rtt_min / 8 x 1.5 / 1316)), in-flight > cap, queued packets do not count) and compared with the code's public predicate; float comparisons use a 1e-9 relative band inside which both outcomes are accepted");
    for (file, body) in ctx.replay_files() {
        if !ctx.replay_case::<SelCase, _>("states", &file, &body, check)
            && !ctx.replay_case::<crate::props::decide::Case, _>("glue", &file, &body, |c, o| crate::props::decide::check(c, o, crate::props::decide::Which::C11, ctx))
        {
            eprintln!("replay {}: unknown part", file.display());
        }
    }
    if ctx.replay.is_some() {
        return "exploration";
    }
    let mo = ctx.tier.pick(60, 120);
    ctx.explore(
        "states",
        "enhanced-mode selects over generated link-state histories (NAK ages and bursts, RTT values, bitrate vs CC target, connection age across 30 s, weak/loss-degraded/capped, warming, quality on/off, every previous index); independent score recomputation: idempotence, no self-oscillation, hysteresis, cap, arg-max validity, factor ranges; non-trivial = a select with >=2 scored links whose scores differ by < 25% or with a gate/cap engaged on the best raw-score link",
        ctx.tier.pick(200_000, 3_000_000),
        || strategy(mo, Some(false)),
        |_| check,
    );
    let mo2 = ctx.tier.pick(50, 100);
    ctx.explore(
        "glue",
        "the decision engine of C03/C04 (real handle_srt_packet on a real shell; link states from real packets, housekeeping, clock steps, config changes, reloads through the real apply_connection_changes): for every plain data datagram in enhanced mode the link it lands on must be the scheduler's own answer for the anchor the glue should pass - its previous choice, or none after a reload removed a link; non-trivial = such a comparison with >= 2 links",
        ctx.tier.pick(30_000, 300_000),
        || crate::props::decide::strategy(mo2),
        |_| |c: &crate::props::decide::Case, o: &mut Obs| crate::props::decide::check(c, o, crate::props::decide::Which::C11, ctx),
    );
    "exploration"
}

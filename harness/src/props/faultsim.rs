//! Fault-schedule simulation shared by C08 (detection / retry / rejoin) and the
//! history tier of C04. The real shell runs against a cooperative receiver
//! model (`srtla_rec`-lite, written from the protocol docs) on a virtual clock;
//! per-link fault windows are generated.

use std::cmp::Reverse;
use std::collections::{BTreeSet, BinaryHeap};

use proptest::collection::vec;
use proptest::prelude::*;
use serde::{Deserialize, Serialize};
use serde_json::json;
use srtla_core::connection::LinkPhase;
use srtla_core::{ConfigSnapshot, SchedulingMode};

use crate::engine::shell::Shell;
use crate::refmodel::codec as rc;
use crate::rt::{CheckResult, Ctx, Obs};

pub const TIMEOUTS: &[u64] = &[5000, 1000, 1001, 2500, 5000, 15_000, 60_000];

#[derive(Debug, Clone, Hash, Serialize, Deserialize)]
pub struct Fault {
    pub link: u8,
    pub start_ds: u16, // deciseconds
    pub dur_ds: u16,
    /// 0 black-hole both ways, 1 uplink-only loss, 2 reply-only loss, 3 handshake replies lost, 4 socket send error,
    /// 5 re-opening the link's socket is refused (its source address is gone) - combined with a black hole,
    /// 6 the receiver's REG2 answers (258 bytes, the only large handshake frame) are lost on this link, everything
    /// else passes,
    /// 7 a black hole that begins at an event instead of a time: the moment the first REG_NGP after `start_ds` has been
    /// delivered to this link (it takes the REG1 turn and goes dark before the answer can come back)
    pub kind: u8,
}

#[derive(Debug, Clone, Hash, Serialize, Deserialize)]
pub struct Case {
    pub n_links: u8,
    pub timeout: u8,
    pub classic: bool,
    pub horizon_s: u16,
    pub burst_gap_ms: u16,
    pub burst_n: u8,
    pub rtt_ms: Vec<u16>,
    pub jit: u32,
    pub faults: Vec<Fault>,
    /// receiver forgets the group at these times (deciseconds); true = answer REG_ERR instead of REG_NGP
    pub forgets: Vec<(u16, bool)>,
    /// run with the stall guard switched off (`--no-stall-deselect`)
    #[serde(default)]
    pub guard_off: bool,
}

#[derive(Clone, Copy, PartialEq, Eq)]
pub enum Which {
    C08,
    C04,
}

/// A share of the runs gets a long horizon with a long dark period (back-off behaviour over tens of seconds).
pub fn strategy(max_horizon_s: u16) -> impl Strategy<Value = Case> {
    prop_oneof![
        10 => strategy_h(max_horizon_s, false),
        2 => strategy_h(max_horizon_s.max(170), true),
        2 => flapping(max_horizon_s.max(170)),
        1 => total_outage(),
        1 => refusing_receiver(),
        1 => cold_start(),
        1 => reopen_refused(),
    ]
}

/// One link is black-holed and, for as long, every attempt to re-open its socket fails (bind refused): the only
/// history in which the reconnect back-off grows - 10, 20, 40, 80 s and then the 120 s cap. 345 s of simulated time.
fn reopen_refused() -> impl Strategy<Value = Case> {
    (strategy_h(80, false), 100u16..200, 2u8..5).prop_map(|(mut c, start, tsel)| {
        c.faults.clear();
        c.forgets.clear();
        c.timeout = tsel; // 1000 / 1001 / 2500 ms
        c.faults.push(Fault { link: 1, start_ds: start, dur_ds: 3250, kind: 0 });
        c.faults.push(Fault { link: 1, start_ds: start, dur_ds: 3250, kind: 5 });
        c.horizon_s = (start + 3250) / 10 + 10;
        c.burst_gap_ms = c.burst_gap_ms.max(200);
        c.burst_n = c.burst_n.min(5);
        c
    })
}

/// The receiver is unreachable on every link from the very start (the start-up grace is spent before anything
/// answers); then the paths come back, but the first link goes dark again shortly afterwards and stays dark while
/// the others are healthy: the session must still get established through them.
fn cold_start() -> impl Strategy<Value = Case> {
    (strategy_h(80, false), 60u16..130, 1u16..30, 300u16..600, 0u8..3).prop_map(|(mut c, dark, gap, again, variant)| {
        c.faults.clear();
        c.forgets.clear();
        for l in 0..c.n_links {
            c.faults.push(Fault { link: l, start_ds: 0, dur_ds: dark, kind: 0 });
        }
        if variant == 0 {
            // the first link hears the receiver again but never gets a REG2 through: it takes the REG1 turn and
            // cannot finish it, the others must still get theirs
            c.faults.push(Fault { link: 0, start_ds: dark, dur_ds: again, kind: 6 });
        } else if variant == 1 {
            // the first link takes the REG1 turn and goes dark at that very moment
            c.faults.push(Fault { link: 0, start_ds: dark, dur_ds: again, kind: 7 });
        } else {
            c.faults.push(Fault { link: 0, start_ds: dark + gap, dur_ds: again, kind: 0 });
        }
        c.horizon_s = (dark + gap) / 10 + 60;
        c
    })
}

/// The receiver forgets the group early and refuses every REG2 with REG_ERR for the rest of a 60-90 s run (no other
/// fault): every link times out, re-opens its socket and is refused again and again - the retry spacing of an
/// established link under refusal.
fn refusing_receiver() -> impl Strategy<Value = Case> {
    (strategy_h(90, false), 80u16..250, 0u8..5).prop_map(|(mut c, at, tsel)| {
        c.faults.clear();
        c.forgets = vec![(at, true)];
        c.timeout = tsel;
        c.horizon_s = c.horizon_s.max(60);
        c
    })
}

/// Every uplink (also link 0) is black-holed over the same period, long enough for the all-links-failed timer
/// (10 s after the last link timed out) to expire; then every path comes back.
fn total_outage() -> impl Strategy<Value = Case> {
    (strategy_h(120, true), 30u16..150, 130u16..400, 0u8..3).prop_map(|(mut c, start, dur, tsel)| {
        c.faults.clear();
        c.forgets.clear();
        c.timeout = tsel; // 5000 / 1000 / 1001 ms
        for l in 0..c.n_links {
            c.faults.push(Fault { link: l, start_ds: start + l as u16, dur_ds: dur, kind: 0 });
        }
        c.horizon_s = (start + dur) / 10 + 60;
        c
    })
}

/// A link that flaps: dark periods of 12..20 s separated by gaps just long enough for one re-registration,
/// so that a fault often begins right after a REG3.
fn flapping(horizon_s: u16) -> impl Strategy<Value = Case> {
    (strategy_h(horizon_s, true), 20u16..80, vec((120u16..200, 50u16..66), 2..5), prop_oneof![Just(0u8), Just(2u8)], 1u8..=3).prop_map(|(mut c, start, flaps, kind, tsel)| {
        c.faults.clear();
        c.forgets.clear();
        c.timeout = tsel; // 1000 / 1001 / 2500 ms: detection is quick, the run stays short
        let mut t = start;
        for (dur, gap) in flaps {
            c.faults.push(Fault { link: 1, start_ds: t, dur_ds: dur, kind });
            t += dur + gap;
        }
        c
    })
}

fn strategy_h(max_horizon_s: u16, long: bool) -> impl Strategy<Value = Case> {
    (2u8..=4).prop_flat_map(move |n| {
        let dur = if long { prop_oneof![1 => 10u16..120, 4 => 280u16..700].boxed() } else { prop_oneof![3 => 10u16..120, 2 => 50u16..400, 1 => 1u16..20].boxed() };
        let start_max = if long { 400u16 } else { max_horizon_s * 10 };
        let fault = (1u8..n, 0u16..start_max, dur, prop_oneof![3 => Just(0u8), 1 => Just(1u8), 2 => Just(2u8), 1 => Just(3u8), 2 => Just(4u8)])
            .prop_map(|(link, start_ds, dur_ds, kind)| Fault { link, start_ds, dur_ds, kind });
        (
            0u8..TIMEOUTS.len() as u8,
            any::<bool>(),
            (max_horizon_s / 2).max(20)..=max_horizon_s,
            if long { prop_oneof![Just(200u16), Just(400), 150u16..400].boxed() } else { prop_oneof![Just(50u16), Just(100), Just(200), 20u16..400].boxed() },
            if long { prop_oneof![Just(3u8), 1u8..8].boxed() } else { prop_oneof![Just(5u8), Just(20), 1u8..60].boxed() },
            vec(prop_oneof![Just(10u16), Just(40), Just(120), 5u16..400], n as usize),
            any::<u32>(),
            vec(fault, if long { 1..3 } else { 0..6 }),
            vec((0u16..(max_horizon_s * 10), prop::bool::weighted(0.3)), if long { 0..1 } else { 0..2 }),
            prop::bool::weighted(0.3),
        )
            .prop_map(move |(timeout, classic, horizon_s, burst_gap_ms, burst_n, rtt_ms, jit, faults, forgets, guard_off)| Case {
                n_links: n,
                timeout,
                classic,
                horizon_s,
                burst_gap_ms,
                burst_n,
                rtt_ms,
                jit,
                faults,
                forgets,
                guard_off,
            })
    })
}

fn splitmix(x: &mut u64) -> u64 {
    *x = x.wrapping_add(0x9E3779B97F4A7C15);
    let mut z = *x;
    z = (z ^ (z >> 30)).wrapping_mul(0xBF58476D1CE4E5B9);
    z = (z ^ (z >> 27)).wrapping_mul(0x94D049BB133111EB);
    z ^ (z >> 31)
}

/// Cooperative receiver (`srtla_rec`-lite).
pub struct Receiver {
    pub group: Option<[u8; 256]>,
    pub members: BTreeSet<u8>,
    /// last time a datagram from each link reached the receiver (members silent for 10 s are dropped, as srtla_rec does)
    last_from: Vec<u64>,
    per_link_unacked: Vec<Vec<u32>>,
    pub highest_seq: Option<u32>,
    pub last_data_link: Option<u8>,
    answer_err: bool,
    gen_counter: u8,
}

impl Receiver {
    pub fn new(n: usize) -> Self {
        Receiver {
            group: None,
            members: BTreeSet::new(),
            last_from: vec![0; n],
            per_link_unacked: vec![Vec::new(); n],
            highest_seq: None,
            last_data_link: None,
            answer_err: false,
            gen_counter: 0,
        }
    }

    /// Drop members that have been silent for 10 s.
    pub fn expire(&mut self, now: u64) {
        let lf = &self.last_from;
        self.members.retain(|m| now.saturating_sub(lf[*m as usize]) < 10_000);
    }

    /// Process one datagram from uplink `l` at time `now`; returns replies for that link.
    pub fn on_datagram(&mut self, l: u8, b: &[u8], now: u64) -> Vec<Vec<u8>> {
        self.expire(now);
        self.last_from[l as usize] = now;
        let mut out = Vec::new();
        match rc::packet_type(b) {
            Some(rc::T_REG1) if b.len() == 258 => {
                // create the group: first half from the sender, second half ours
                let mut id = [0u8; 256];
                id[..128].copy_from_slice(&b[2..130]);
                self.gen_counter = self.gen_counter.wrapping_add(1);
                for (i, x) in id[128..].iter_mut().enumerate() {
                    *x = (i as u8).wrapping_mul(7).wrapping_add(self.gen_counter);
                }
                self.group = Some(id);
                self.members.clear();
                self.answer_err = false;
                let mut r = vec![0x92, 0x01];
                r.extend_from_slice(&id);
                out.push(r);
            }
            Some(rc::T_REG2) if b.len() == 258 => {
                if self.group.is_some_and(|g| g[..] == b[2..]) {
                    self.members.insert(l);
                    out.push(vec![0x92, 0x02]);
                } else if self.answer_err {
                    out.push(vec![0x92, 0x10]);
                } else {
                    out.push(vec![0x92, 0x11]);
                }
            }
            Some(rc::T_KEEPALIVE) => {
                if self.members.contains(&l) {
                    out.push(b.to_vec());
                }
            }
            _ => {
                if let Some(seq) = rc::srt_seq(b)
                    && self.members.contains(&l)
                {
                    self.highest_seq = Some(self.highest_seq.map_or(seq, |h| h.max(seq)));
                    self.last_data_link = Some(l);
                    let q = &mut self.per_link_unacked[l as usize];
                    q.push(seq);
                    if q.len() >= 10 {
                        let mut r = vec![0x91, 0x00, 0, 0];
                        for s in q.drain(..) {
                            r.extend_from_slice(&s.to_be_bytes());
                        }
                        out.push(r);
                    }
                }
            }
        }
        out
    }

    /// true while the receiver answers REG_ERR to every REG2 (it refuses; a sender can only retry)
    pub fn refusing(&self) -> bool {
        self.answer_err
    }

    pub fn forget(&mut self, err: bool) {
        self.group = None;
        self.members.clear();
        self.answer_err = err;
        for q in self.per_link_unacked.iter_mut() {
            q.clear();
        }
    }
}

#[derive(Default, Clone)]
struct LinkMon {
    established: bool,
    last_heard: Option<u64>,
    attempts: Vec<u64>,
    down_since: Option<u64>,
    went_down: u32,
    came_back: u32,
    reg_err_since_up: bool,
    /// the harness's own record that this link completed a registration at least once (a REG3 was delivered to it)
    ever_established: bool,
    /// when this link last rejoined (REG3 after having been down) and how many keepalive echoes the harness has
    /// delivered to it since: the warming phase ends after two RTT probes or 5 s, not earlier
    rejoined_at: Option<u64>,
    echoes_since_rejoin: u32,
}

pub fn check(case: &Case, obs: &mut Obs, which: Which, ctx: &Ctx) -> CheckResult {
    let n = case.n_links as usize;
    let addrs: Vec<u8> = (0..n as u8).collect();
    let timeout = TIMEOUTS[case.timeout as usize % TIMEOUTS.len()];
    let cfg = ConfigSnapshot {
        mode: if case.classic { SchedulingMode::Classic } else { SchedulingMode::Enhanced },
        conn_timeout_ms: timeout,
        stall_deselect: !case.guard_off,
        ..ConfigSnapshot::default()
    };
    let mut sh = Shell::new(&addrs, cfg);
    let t0 = sh.now();
    let horizon = t0 + case.horizon_s as u64 * 1000;
    let mut rng = case.jit as u64 ^ 0xabcdef;
    let mut rx = Receiver::new(n);
    let mut mons: Vec<LinkMon> = vec![LinkMon::default(); n];
    let mut broken = vec![false; n];
    // (due time, tie-break, address number, destination port, bytes): a reply is addressed to the socket the
    // triggering datagram came from; if the uplink has a new socket by then the kernel would discard it
    let mut replies: BinaryHeap<Reverse<(u64, u64, u8, u16, Vec<u8>)>> = BinaryHeap::new();
    let mut last_port: Vec<u16> = vec![0; n];
    let mut reply_no = 0u64;
    let mut seq: u32 = 1;
    let mut counter: u32 = 0;
    let mut max_hk_gap: u64 = 1000;
    let mut last_hk = t0;
    let mut decisions = 0u64;
    let mut fault_kinds: BTreeSet<u8> = BTreeSet::new();
    let trace = std::env::var_os("VERIF_FS_TRACE").is_some();

    // event-triggered faults (kind 7): the time each one began, once it has
    let trig: Vec<std::cell::Cell<Option<u64>>> = case.faults.iter().map(|_| std::cell::Cell::new(None)).collect();
    let fault_at = |l: usize, t: u64, kinds: &[u8]| -> bool {
        case.faults.iter().enumerate().any(|(fi, f)| {
            f.link as usize == l
                && if f.kind == 7 {
                    kinds.contains(&0) && trig[fi].get().is_some_and(|s| t >= s && t < s + f.dur_ds as u64 * 100)
                } else {
                    kinds.contains(&f.kind) && {
                        let s = t0 + f.start_ds as u64 * 100;
                        t >= s && t < s + f.dur_ds as u64 * 100
                    }
                }
        })
    };
    // time after which no fault touches link l any more (an event-triggered fault that has not begun counts from
    // its earliest possible start)
    let clear_after = |l: usize| -> u64 {
        case.faults
            .iter()
            .enumerate()
            .filter(|(_, f)| f.link as usize == l)
            .map(|(fi, f)| if f.kind == 7 { trig[fi].get().map(|s| s + f.dur_ds as u64 * 100).unwrap_or(t0 + f.start_ds as u64 * 100) } else { t0 + (f.start_ds as u64 + f.dur_ds as u64) * 100 })
            .max()
            .unwrap_or(t0)
    };
    // the link the last REG1 frame was seen on (wire fact)
    let mut last_reg1_link: Option<usize> = None;
    let mut last_reg1_at: u64 = 0;

    // start-up as run_sender_with_config
    sh.start_probing();
    let mut next_hk = t0; // initial housekeeping pass
    let mut next_burst = t0 + 300;
    let mut next_flush: Option<u64> = None;
    let mut next_srt_ack = t0 + 200;
    let mut break_events: Vec<(u64, usize)> = case.faults.iter().filter(|f| f.kind == 4).map(|f| (t0 + f.start_ds as u64 * 100, f.link as usize)).collect();
    break_events.sort();
    // (time, link, refuse on/off)
    let mut refuse_events: Vec<(u64, usize, bool)> = case
        .faults
        .iter()
        .filter(|f| f.kind == 5)
        .flat_map(|f| [(t0 + f.start_ds as u64 * 100, f.link as usize, true), (t0 + (f.start_ds as u64 + f.dur_ds as u64) * 100, f.link as usize, false)])
        .collect();
    refuse_events.sort();
    let _ = sh.take_bind_calls();
    let mut forget_events: Vec<(u64, bool)> = case.forgets.iter().map(|(t, e)| (t0 + *t as u64 * 100, *e)).collect();
    forget_events.sort();
    let mut ids_equal_since: Option<u64> = None;
    let mut last_forget: u64 = t0;
    let mut not_member_since: Vec<Option<u64>> = vec![None; n];
    // datagrams accepted before the session was established go through pre-registration forwarding (outside C04)
    let mut first_established_counter: Option<u32> = None;

    // after every sender-side step: feed the wire to the receiver, schedule replies, run the monitors
    macro_rules! after_step {
        ($what:expr, $socks_before:expr, $conn_before:expr, $is_hk:expr) => {{
            let now = sh.now();
            let wire = sh.drain_wire();
            for e in wire {
                let l = e.addr as usize;
                if l >= n {
                    continue;
                }
                // C04(b): a link that was not registered before this step carries no stream data
                if which == Which::C04
                    && !rc::packet_type(&e.bytes).is_some_and(|t| t == rc::T_KEEPALIVE || t == rc::T_REG1 || t == rc::T_REG2)
                    && !$conn_before[l]
                    && e.bytes.len() >= 20
                    && first_established_counter.is_some_and(|f| u32::from_be_bytes([e.bytes[16], e.bytes[17], e.bytes[18], e.bytes[19]]) >= f)
                {
                    return crate::rt::viol("stream-data-on-unregistered-link", format!("{}: link {l} was not connected before this step but put a {}-byte stream datagram on the wire at +{} ms", $what, e.bytes.len(), now - t0));
                }
                if e.port != last_port[l] && last_port[l] != 0 {
                    broken[l] = false; // a new source port: the socket was replaced, the injected failure is gone
                }
                last_port[l] = e.port;
                if rc::packet_type(&e.bytes) == Some(rc::T_REG1) {
                    last_reg1_link = Some(l);
                    last_reg1_at = now;
                }
                if trace && rc::packet_type(&e.bytes).is_some_and(|t| t == rc::T_REG1 || t == rc::T_REG2) {
                    eprintln!("+{:>6} ms  link {l} -> {:?} (port {}){}", now - t0, rc::packet_type(&e.bytes).map(|t| format!("{t:#06x}")), e.port, if fault_at(l, now, &[0, 1]) || broken[l] { "  LOST" } else { "" });
                }
                if fault_at(l, now, &[0, 1]) || broken[l] {
                    continue; // uplink direction lost
                }
                for r in rx.on_datagram(e.addr, &e.bytes, now) {
                    reply_no += 1;
                    replies.push(Reverse((now + case.rtt_ms[l] as u64, reply_no, e.addr, e.port, r)));
                }
            }
            // teardown / attempt / rejoin monitors
            let bind_calls = sh.take_bind_calls();
            for i in 0..n {
                let c = &sh.st.conns[i];
                let sock_now = sh.st.conn_io.get(&c.conn_id).map(|io| std::sync::Arc::as_ptr(&io.socket) as usize).unwrap_or(0);
                let m = &mut mons[i];
                let torn = $conn_before[i] && !c.connected;
                if torn {
                    // an established link was torn down in this step
                    // the configured timeout reaches a link with the first routing decision taken under it;
                    // before any decision the link holds the built-in default
                    let lt = if decisions > 0 { timeout } else { c.verif_conn_timeout_ms() };
                    let silent_for = m.last_heard.map(|h| now.saturating_sub(h));
                    let ok = broken[i] || m.reg_err_since_up || silent_for.is_none_or(|s| s >= lt);
                    if which == Which::C08 {
                        vensure!(
                            ok,
                            "early-teardown",
                            "{}: link {i} torn down after only {:?} ms of silence (timeout {lt}), no send failure, no REG_ERR (gated={}, weak={})",
                            $what,
                            silent_for,
                            c.is_stall_gated(),
                            c.weak
                        );
                    }
                    m.went_down += 1;
                    m.rejoined_at = None;
                    m.down_since = Some(now);
                    m.established = false;
                    m.reg_err_since_up = false;
                    obs.class(if broken[i] { "teardown-by-send-failure" } else { "teardown-by-timeout-or-reg-err" });
                }
                if let Some(t) = m.rejoined_at {
                    if !c.connected {
                        m.rejoined_at = None;
                    } else if !matches!(c.phase, LinkPhase::Warming { .. }) {
                        if which == Which::C08 {
                            vensure!(
                                now.saturating_sub(t) >= 5_000 || m.echoes_since_rejoin >= 2,
                                "warming-cut-short",
                                "{}: link {i} rejoined {} ms ago (REG3 after having been down) and is already {:?}: the warming phase ends after two RTT probes (keepalive echoes delivered since: {}) or 5 s",
                                $what,
                                now - t,
                                c.phase,
                                m.echoes_since_rejoin
                            );
                        }
                        obs.class("rejoined-link-left-warming");
                        m.rejoined_at = None;
                    }
                }
                if sock_now != $socks_before[i] {
                    // a reconnect attempt (new socket)
                    if which == Which::C08 {
                        vensure!($is_hk, "reconnect-outside-housekeeping", "{}: link {i} socket replaced outside a housekeeping pass", $what);
                        if let Some(prev) = m.attempts.last() {
                            let gap = now - prev;
                            // "at least 1 s apart during initial registration and at least 5 s apart afterwards":
                            // afterwards = once a REG3 was delivered to this link (the harness's own record)
                            let min_gap = if m.ever_established { 5000 } else { 1000 };
                            vensure!(gap >= min_gap, "retry-too-soon", "{}: link {i} reconnect attempts {} ms apart (< {min_gap})", $what, gap);
                        }
                    }
                    m.attempts.push(now);
                    broken[i] = false;
                }
                // an attempt whose bind was refused leaves the socket as it was: it still is an attempt
                if sock_now == $socks_before[i] && bind_calls.contains(&c.local_ip) {
                    if which == Which::C08 {
                        vensure!($is_hk, "reconnect-outside-housekeeping", "{}: link {i} tried to re-open its socket outside a housekeeping pass", $what);
                        if let Some(prev) = m.attempts.last() {
                            let gap = now - prev;
                            let min_gap = if m.ever_established { 5000 } else { 1000 };
                            vensure!(gap >= min_gap, "retry-too-soon", "{}: link {i} reconnect attempts {} ms apart (< {min_gap})", $what, gap);
                        }
                    }
                    m.attempts.push(now);
                    obs.class("re-open-refused");
                }
                // "forever": while down, attempts keep coming
                if which == Which::C08 && !c.connected && $is_hk {
                    let since = m.attempts.last().copied().or(m.down_since).unwrap_or(t0);
                    vensure!(now - since <= 120_000 + max_hk_gap + 5_000, "retries-stopped", "{}: link {i} down with no reconnect attempt for {} ms", $what, now - since);
                }
            }
        }};
    }

    while sh.now() < horizon {
        // next event
        let mut t_next = next_hk.min(next_burst).min(next_srt_ack);
        if let Some(f) = next_flush {
            t_next = t_next.min(f);
        }
        if let Some(Reverse((t, ..))) = replies.peek() {
            t_next = t_next.min(*t);
        }
        if let Some((t, _)) = break_events.first() {
            t_next = t_next.min(*t);
        }
        if let Some((t, ..)) = refuse_events.first() {
            t_next = t_next.min(*t);
        }
        if let Some((t, _)) = forget_events.first() {
            t_next = t_next.min(*t);
        }
        let now = sh.now();
        if t_next > now {
            sh.advance(t_next - now);
        }
        let now = sh.now();
        let socks: Vec<usize> = (0..n).map(|i| sh.st.conn_io.get(&sh.st.conns[i].conn_id).map(|io| std::sync::Arc::as_ptr(&io.socket) as usize).unwrap_or(0)).collect();
        let conn_before: Vec<bool> = sh.st.conns.iter().map(|c| c.connected).collect();

        if refuse_events.first().is_some_and(|(t, ..)| *t <= now) {
            let (_, l, on) = refuse_events.remove(0);
            if l < n {
                sh.refuse_bind(l, on);
                if on {
                    fault_kinds.insert(5);
                }
            }
            continue;
        }
        if break_events.first().is_some_and(|(t, _)| *t <= now) {
            let (_, l) = break_events.remove(0);
            if sh.break_socket(l) {
                broken[l] = true;
                fault_kinds.insert(4);
            }
            continue;
        }
        if forget_events.first().is_some_and(|(t, _)| *t <= now) {
            let (_, e) = forget_events.remove(0);
            last_forget = now;
            rx.forget(e);
            obs.class(if e { "receiver-forgot-group-reg-err" } else { "receiver-forgot-group-reg-ngp" });
            continue;
        }
        if replies.peek().is_some_and(|Reverse((t, ..))| *t <= now) {
            let Reverse((_, _, a, dst_port, bytes)) = replies.pop().unwrap();
            let l = a as usize;
            if sh.idx_of(a).is_some_and(|li| sh.local_port(li) != dst_port) {
                continue; // addressed to a socket that no longer exists
            }
            let ty = rc::packet_type(&bytes);
            let handshake = matches!(ty, Some(rc::T_REG2) | Some(rc::T_REG3) | Some(rc::T_REG_NGP) | Some(rc::T_REG_ERR));
            let lost = fault_at(l, now, &[0, 2]) || (handshake && fault_at(l, now, &[3])) || (ty == Some(rc::T_REG2) && fault_at(l, now, &[6])) || broken[l];
            if trace && handshake {
                eprintln!("+{:>6} ms  link {l} <- {:?}{}", now - t0, ty.map(|t| format!("{t:#06x}")), if lost { "  LOST" } else { "" });
            }
            if lost {
                continue; // reply direction lost
            }
            if let Some(li) = sh.idx_of(a) {
                let was_down = !sh.st.conns[li].connected;
                if ty == Some(rc::T_REG_NGP) {
                    for (fi, f) in case.faults.iter().enumerate() {
                        if f.kind == 7 && f.link as usize == l && now >= t0 + f.start_ds as u64 * 100 && trig[fi].get().is_none() {
                            trig[fi].set(Some(now));
                            obs.class("went-dark-right-after-taking-the-reg1-turn");
                        }
                    }
                }
                sh.uplink_pkt(li, &bytes);
                let m = &mut mons[li];
                match ty {
                    Some(rc::T_REG3) => {
                        m.last_heard = Some(now);
                        if was_down {
                            // clean rejoin
                            let c = &sh.st.conns[li];
                            if which == Which::C08 {
                                vensure!(
                                    c.connected && c.window == 20_000 && c.in_flight_packets == 0 && c.batch_sender.queued_count() == 0 && matches!(c.phase, LinkPhase::Warming { .. }),
                                    "unclean-rejoin",
                                    "REG3 on link {li}: connected={} window={} in-flight={} queued={} phase={:?}",
                                    c.connected,
                                    c.window,
                                    c.in_flight_packets,
                                    c.batch_sender.queued_count(),
                                    c.phase
                                );
                            }
                            if m.went_down > 0 {
                                m.came_back += 1;
                            }
                            m.rejoined_at = Some(now);
                            m.echoes_since_rejoin = 0;
                            m.down_since = None;
                        }
                        m.established = true;
                        m.ever_established = true;
                    }
                    Some(rc::T_REG_ERR) => m.reg_err_since_up = true,
                    Some(rc::T_REG2) | Some(rc::T_REG_NGP) => {}
                    Some(rc::T_KEEPALIVE) => {
                        m.last_heard = Some(now);
                        m.echoes_since_rejoin += 1;
                    }
                    _ => m.last_heard = Some(now),
                }
            }
            after_step!("uplink packet", socks, conn_before, false);
            continue;
        }
        if next_flush.is_some_and(|f| f <= now) {
            next_flush = None;
            sh.flush_tick();
            after_step!("flush tick", socks, conn_before, false);
            continue;
        }
        if next_srt_ack <= now {
            next_srt_ack = now + 200;
            if let (Some(h), Some(l)) = (rx.highest_seq, rx.last_data_link) {
                let mut p = vec![0u8; 44];
                p[0] = 0x80;
                p[1] = 0x02;
                p[16..20].copy_from_slice(&h.to_be_bytes());
                if rx.members.contains(&l) {
                    reply_no += 1;
                    replies.push(Reverse((now + case.rtt_ms[l as usize] as u64 / 2, reply_no, l, last_port[l as usize], p)));
                }
            }
            continue;
        }
        if next_hk <= now {
            max_hk_gap = max_hk_gap.max(now - last_hk);
            last_hk = now;
            next_hk = now + 1000 + splitmix(&mut rng) % 300;
            let hk_ok = sh.housekeeping();
            after_step!("housekeeping", socks, conn_before, true);
            if !hk_ok {
                // every uplink failed for > 10 s: handle_housekeeping reports an error; the real loop logs it and
                // goes on, so does the simulation (retries must continue and the links must come back)
                obs.class("all-links-failed-error");
            }
            // bounded recovery: the receiver knows the group the sender has adopted
            let ids_equal = rx.group.is_some_and(|g| &g == sh.st.reg.srtla_id());
            if ids_equal {
                if ids_equal_since.is_none() {
                    ids_equal_since = Some(now);
                }
            } else {
                ids_equal_since = None;
            }
            rx.expire(now);
            // the receiver answers REG_NGP (it has no group, or another one): the sender has to create a new group.
            // Bound: detection (timeout) + 30 s, counted from the last forget event / the end of every link's faults.
            if which == Which::C08 && !ids_equal && !rx.refusing() && forget_events.is_empty() {
                // one link whose path delivers (no fault on it any more, no send error) is enough to create a group
                let best = (0..n).filter(|i| !broken[*i] && break_events.iter().all(|(_, l)| l != i)).min_by_key(|i| clear_after(*i));
                let since = last_forget.max(best.map(&clear_after).unwrap_or(u64::MAX));
                let undisturbed = best.is_some() && now >= since;
                let bound = timeout + 30_000 + 2 * max_hk_gap;
                // finding F7 (DESIGN section 6): the REG1 turn is held, again and again, by a link that hears REG_NGP but
                // whose REG2 answers are lost - identified by the wire (last REG1 on that link) and the fault in force
                let holder = last_reg1_link.filter(|l| fault_at(*l, last_reg1_at, &[6]));
                if undisturbed && now - since > bound && let Some(h) = holder {
                    return crate::rt::viol(
                        "registration-turn-held-by-link-losing-reg2-answers",
                        format!(
                            "{} ms after link {:?} could deliver again the sender has no group: every REG1 went to link {h}, which hears REG_NGP but loses every REG2 answer, and takes the turn again as soon as its 4 s wait ends; the healthy link's retries fall inside those waits and are deferred (socket re-opened, nothing sent)",
                            now - since,
                            best
                        ),
                    );
                }
                if undisturbed && now - since > bound {
                    return crate::rt::viol(
                        "group-not-re-created",
                        format!(
                            "{} ms after the receiver lost the group (it answers REG_NGP, no fault is active) the sender still has no group the receiver knows (bound {} ms = timeout + 30 s; pending REG1 on {:?}, connected links {})",
                            now - since,
                            bound,
                            sh.st.reg.pending_reg2_idx(),
                            sh.st.conns.iter().filter(|c| c.connected).count()
                        ),
                    );
                }
            }
            if which == Which::C08
                && let Some(eq_since) = ids_equal_since
            {
                // the link must also be known to the receiver again: a link that believes it is connected while the
                // receiver dropped it is a failed uplink that was never detected. Bound: its timeout (detection) + 30 s.
                for i in 0..n {
                    let c = &sh.st.conns[i];
                    if rx.members.contains(&(i as u8)) {
                        not_member_since[i] = None;
                        continue;
                    }
                    let since = *not_member_since[i].get_or_insert(now);
                    let since = since.max(clear_after(i)).max(eq_since);
                    let undisturbed = forget_events.is_empty() && break_events.iter().all(|(_, l)| *l != i) && !broken[i] && now >= since;
                    let bound = c.verif_conn_timeout_ms() + 30_000 + 2 * max_hk_gap;
                    if undisturbed && now - since > bound {
                        return crate::rt::viol(
                            "failure-never-detected",
                            format!(
                                "link {i}: the receiver has not known it for {} ms after the path was repaired (bound {} ms = timeout + 30 s); sender view: connected={} last_received age {:?}",
                                now - since,
                                bound,
                                c.connected,
                                c.last_received.map(|l| now - l)
                            ),
                        );
                    }
                }
                for i in 0..n {
                    let c = &sh.st.conns[i];
                    if !c.connected {
                        // the clock restarts whenever the link was up in between (REG3 seen, torn down again)
                        let since = clear_after(i).max(eq_since).max(mons[i].down_since.unwrap_or(t0));
                        // only once nothing is scheduled to disturb the link or the group any more
                        let undisturbed = forget_events.is_empty() && break_events.iter().all(|(_, l)| *l != i) && !broken[i] && now >= since;
                        if undisturbed && now - since > 30_000 + max_hk_gap {
                            return crate::rt::viol(
                                "not-recovered-in-30s",
                                format!(
                                    "link {i} still down {} ms after its last fault cleared and the receiver knew the group (attempts at {:?})",
                                    now - since,
                                    mons[i].attempts.iter().rev().take(4).map(|a| a - t0).collect::<Vec<_>>()
                                ),
                            );
                        }
                    }
                }
            }
            continue;
        }
        if next_burst <= now {
            next_burst = now + case.burst_gap_ms as u64;
            for _ in 0..case.burst_n {
                counter += 1;
                seq += 1;
                let mut pkt = vec![0u8; 188];
                pkt[0..4].copy_from_slice(&seq.to_be_bytes());
                pkt[16..20].copy_from_slice(&counter.to_be_bytes());
                let tnow = sh.now();
                let usable: Vec<usize> = (0..n)
                    .filter(|i| {
                        let c = &sh.st.conns[*i];
                        !matches!(c.phase, LinkPhase::Registering) && c.connected && c.last_received.is_some_and(|lr| tnow.saturating_sub(lr) < c.verif_conn_timeout_ms())
                    })
                    .collect();
                let socks2: Vec<usize> = (0..n).map(|i| sh.st.conn_io.get(&sh.st.conns[i].conn_id).map(|io| std::sync::Arc::as_ptr(&io.socket) as usize).unwrap_or(0)).collect();
                let conn2: Vec<bool> = sh.st.conns.iter().map(|c| c.connected).collect();
                if sh.st.reg.has_connected && first_established_counter.is_none() {
                    first_established_counter = Some(counter);
                }
                if !sh.st.reg.has_connected {
                    // session not established yet: pre-registration forwarding, outside C08/C04
                    sh.client_pkt(&pkt);
                    after_step!("client packet (pre-registration)", socks2, conn2, false);
                    continue;
                }
                // where is it queued?
                let q_before: Vec<i32> = sh.st.conns.iter().map(|c| c.batch_sender.queued_count()).collect();
                sh.client_pkt(&pkt);
                decisions += 1;
                let mut holders: Vec<usize> = Vec::new();
                for (i, c) in sh.st.conns.iter().enumerate() {
                    if c.batch_sender.verif_queue_snapshot().iter().any(|(d, _)| d == &pkt) {
                        holders.push(i);
                    }
                }
                // (a threshold flush may already have put it on the wire)
                let wire_peek = sh.drain_wire();
                for e in &wire_peek {
                    if e.bytes == pkt && !holders.contains(&(e.addr as usize)) && (e.addr as usize) < n {
                        holders.push(e.addr as usize);
                    }
                }
                // give the peeked datagrams to the receiver
                for e in wire_peek {
                    let l = e.addr as usize;
                    if l >= n {
                        continue;
                    }
                    last_port[l] = e.port;
                    if fault_at(l, tnow, &[0, 1]) || broken[l] {
                        continue;
                    }
                    for r in rx.on_datagram(e.addr, &e.bytes, tnow) {
                        reply_no += 1;
                        replies.push(Reverse((tnow + case.rtt_ms[l] as u64, reply_no, e.addr, e.port, r)));
                    }
                }
                let torn_now = (0..n).any(|i| conn2[i] && !sh.st.conns[i].connected);
                if holders.is_empty() && !usable.is_empty() && !torn_now {
                    let r: CheckResult = crate::rt::viol("survivor-dropped-packet", format!("client datagram dropped at +{} ms although link(s) {:?} are usable", tnow - t0, usable));
                    let mut o2 = Obs::default();
                    ctx.filter_known(r, &mut o2)?;
                }
                if which == Which::C04 {
                    let ungated: Vec<usize> = holders.iter().copied().filter(|i| !sh.st.conns[*i].is_stall_gated()).collect();
                    for u in &ungated {
                        let c = &sh.st.conns[*u];
                        let age = c.last_received.map(|lr| tnow.saturating_sub(lr));
                        // the configured timeout (every link holds it once a decision was taken under it - and one just was)
                        let ok = !matches!(c.phase, LinkPhase::Registering) && c.connected && age.is_some_and(|a| a < timeout);
                        vensure!(ok, "history-routed-to-ineligible-link", "+{} ms: unique copy queued on link {u}: phase {:?}, connected {}, receive age {:?}, timeout {}", tnow - t0, c.phase, c.connected, age, c.verif_conn_timeout_ms());
                    }
                    vensure!(ungated.len() <= 1, "two-unique-copies", "+{} ms: datagram on non-gated links {:?}", tnow - t0, ungated);
                    if holders.len() > ungated.len() {
                        obs.class("probe-duplicate");
                    }
                    if ungated.is_empty() && !holders.is_empty() {
                        if torn_now {
                            // the unique copy went to a link whose threshold flush failed inside this call and died
                            // with that link's queue (allowed by C01); what is left is the probe copy on the gated link
                            obs.class("unique-copy-lost-with-failed-link");
                        } else {
                            return crate::rt::viol("history-routed-to-gated-link", format!("+{} ms: unique copy only on stall-gated link(s) {:?}", tnow - t0, holders));
                        }
                    }
                    let ineligible = (0..n).any(|i| {
                        let c = &sh.st.conns[i];
                        matches!(c.phase, LinkPhase::Registering) || c.is_stall_gated() || !c.connected
                    });
                    if ineligible {
                        obs.class("decision-with-ineligible-link");
                    }
                }
                let _ = q_before;
                after_step!("client packet", socks2, conn2, false);
            }
            next_flush = Some(sh.now() + 15);
            continue;
        }
    }
    let went: u32 = mons.iter().map(|m| m.went_down).sum();
    let back: u32 = mons.iter().map(|m| m.came_back).sum();
    for f in &case.faults {
        fault_kinds.insert(f.kind);
    }
    for k in &fault_kinds {
        obs.class(match k {
            0 => "fault-blackhole",
            1 => "fault-uplink-loss",
            2 => "fault-reply-loss",
            3 => "fault-handshake-replies-lost",
            5 => "fault-reopen-refused",
            6 => "fault-reg2-answers-lost",
            7 => "fault-blackhole-at-reg-ngp",
            _ => "fault-socket-send-error",
        });
    }
    if went > 0 {
        obs.class("link-went-down");
    }
    if back > 0 {
        obs.class("link-came-back");
    }
    if mons.iter().any(|m| m.established) {
        obs.class("session-established");
    }
    obs.count("decisions", decisions);
    obs.count("reconnect-attempts", mons.iter().map(|m| m.attempts.len() as u64).sum());
    obs.nontrivial = match which {
        Which::C08 => went > 0 && back > 0,
        Which::C04 => obs.classes.iter().any(|c| c == "decision-with-ineligible-link"),
    };
    if obs.nontrivial {
        obs.sample = Some(json!({"links": n, "timeout": timeout, "classic": case.classic, "horizon_s": case.horizon_s, "faults": case.faults.len(), "forgets": case.forgets.len(), "went_down": went, "came_back": back, "decisions": decisions}));
    }
    Ok(())
}

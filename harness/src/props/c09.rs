//! C09 — return path relays receiver traffic to the SRT client unmodified.
//! Arbitrary (structure-aware) datagrams through the real `handle_uplink_packet`
//! on links in generated states; reference classification by type only.

use proptest::collection::vec;
use proptest::prelude::*;
use serde::{Deserialize, Serialize};
use serde_json::json;
use srtla_core::ConfigSnapshot;
use srtla_core::connection::LinkPhase;

use crate::engine::shell::Shell;
use crate::refmodel::codec as rc;
use crate::rt::{CheckResult, Ctx, Obs, idx};

#[derive(Debug, Clone, Hash, Serialize, Deserialize)]
pub enum Dg {
    Raw(Vec<u8>),
    /// SRTLA ACK naming up to k seqs held (by the link chosen with the selector) plus junk numbers
    SrtlaAck(u16, u8, Vec<u32>),
    /// echo of the last keepalive sent on this link; mutation selector
    Echo(u8, Vec<u8>),
    /// NAK naming held seqs
    Nak(u16, u8),
    SrtAck(u32, u8),
}

#[derive(Debug, Clone, Hash, Serialize, Deserialize)]
pub enum Op {
    Datagram(u16, Dg),
    Client(u8),
    Flush,
    Housekeeping,
    Advance(u32),
    Reg3(u16),
    Ngp(u16),
    /// the client comes back from a new source port and sends so many datagrams from there
    ClientMoves(u8),
}

#[derive(Debug, Clone, Hash, Serialize, Deserialize)]
pub struct Case {
    pub n_links: u8,
    pub up_mask: u8,
    pub probing: bool,
    pub classic: bool,
    pub ops: Vec<Op>,
}

const GUARDS: &[usize] = &[1, 2, 3, 7, 8, 9, 10, 11, 19, 20, 21, 37, 38, 39, 257, 258, 259];
const TYPES: &[u16] = &[
    0x9000, 0x9100, 0x9200, 0x9201, 0x9202, 0x9210, 0x9211, 0x9212, 0x8000, 0x8001, 0x8002, 0x8003, 0x8004, 0x8005, 0x8006, 0x8007, 0x0000, 0x7fff, 0x1234,
];

fn raw() -> impl Strategy<Value = Vec<u8>> {
    let ty = prop_oneof![8 => proptest::sample::select(TYPES.to_vec()), 1 => any::<u16>()];
    let len = prop_oneof![5 => proptest::sample::select(GUARDS.to_vec()), 2 => 1usize..=64, 1 => 1usize..=1500, 1 => Just(1500usize)];
    prop_oneof![
        6 => (ty, len, vec(any::<u8>(), 48), any::<u8>()).prop_map(|(ty, len, seedb, fill)| {
            let mut b = Vec::with_capacity(len);
            b.extend_from_slice(&ty.to_be_bytes());
            let mut i = 0usize;
            while b.len() < len {
                b.push(if i < seedb.len() { seedb[i] } else { fill.wrapping_add(i as u8) });
                i += 1;
            }
            b.truncate(len);
            b
        }),
        1 => vec(any::<u8>(), 1..40),
    ]
}

fn dg() -> impl Strategy<Value = Dg> {
    prop_oneof![
        8 => raw().prop_map(Dg::Raw),
        3 => (any::<u16>(), 0u8..6, vec(prop_oneof![Just(0u32), any::<u32>()], 0..3)).prop_map(|(l, k, j)| Dg::SrtlaAck(l, k, j)),
        4 => (0u8..10, vec(any::<u8>(), 0..20)).prop_map(|(m, t)| Dg::Echo(m, t)),
        2 => (any::<u16>(), 1u8..5).prop_map(|(l, k)| Dg::Nak(l, k)),
        2 => (any::<u32>(), 0u8..4).prop_map(|(a, t)| Dg::SrtAck(a, t)),
    ]
}

pub fn strategy(max_ops: usize) -> impl Strategy<Value = Case> {
    let op = prop_oneof![
        14 => (any::<u16>(), dg()).prop_map(|(l, d)| Op::Datagram(l, d)),
        4 => (1u8..40).prop_map(Op::Client),
        2 => Just(Op::Flush),
        3 => Just(Op::Housekeeping),
        4 => prop_oneof![Just(0u32), Just(1), 1u32..1200, Just(3001), Just(10_000), Just(10_001)].prop_map(Op::Advance),
        1 => any::<u16>().prop_map(Op::Reg3),
        1 => any::<u16>().prop_map(Op::Ngp),
        1 => (1u8..5).prop_map(Op::ClientMoves),
    ];
    (1u8..=3, any::<u8>(), any::<bool>(), any::<bool>(), vec(op, 1..max_ops)).prop_map(|(n_links, up_mask, probing, classic, ops)| Case { n_links, up_mask, probing, classic, ops })
}

const INTERNAL: &[u16] = &[0x9000, 0x9100, 0x9201, 0x9202, 0x9210, 0x9211];
const REGISTRATION: &[u16] = &[0x9201, 0x9202, 0x9210, 0x9211];

pub fn check(case: &Case, obs: &mut Obs) -> CheckResult {
    let n = case.n_links as usize;
    let addrs: Vec<u8> = (0..n as u8).collect();
    let mut cfg = ConfigSnapshot::default();
    if case.classic {
        cfg.mode = srtla_core::SchedulingMode::Classic;
    }
    let mut sh = Shell::new(&addrs, cfg);
    if case.probing {
        sh.start_probing();
    }
    for i in 0..n {
        if case.up_mask & (1 << i) != 0 {
            sh.deliver_reg3(i);
        }
    }
    let _ = sh.drain_wire();
    let _ = sh.drain_client();
    let mut seq: u32 = 50;
    let mut checked = 0u64;
    let mut nontrivial = false;
    let mut client_seen = false;

    for (oi, op) in case.ops.iter().enumerate() {
        match op {
            Op::Advance(d) => sh.advance(*d as u64),
            Op::Flush => sh.flush_tick(),
            Op::Housekeeping => {
                sh.housekeeping();
            }
            Op::Reg3(l) => sh.deliver_reg3(idx(*l, n)),
            Op::Ngp(l) => sh.uplink_pkt(idx(*l, n), &[0x92, 0x11]),
            Op::ClientMoves(k) => {
                sh.switch_client();
                client_seen = true;
                obs.class("client-came-back-from-a-new-port");
                for _ in 0..*k {
                    seq += 1;
                    let mut p = vec![0u8; 32];
                    p[0..4].copy_from_slice(&seq.to_be_bytes());
                    sh.client_pkt(&p);
                }
            }
            Op::Client(k) => {
                if *k > 0 {
                    client_seen = true;
                    if !sh.st.reg.has_connected {
                        obs.class("client-heard-before-registration");
                    }
                }
                for _ in 0..*k {
                    seq += 1;
                    let mut p = vec![0u8; 32];
                    p[0..4].copy_from_slice(&seq.to_be_bytes());
                    sh.client_pkt(&p);
                }
            }
            Op::Datagram(l, d) => {
                let li = idx(*l, n);
                let now = sh.now();
                let a = sh.addr_of(li);
                let bytes: Vec<u8> = match d {
                    Dg::Raw(b) => b.clone(),
                    Dg::SrtlaAck(hl, k, junk) => {
                        let hi = idx(*hl, n);
                        let mut seqs: Vec<i32> = sh.st.conns[hi].packet_log.keys().copied().collect();
                        seqs.sort();
                        seqs.truncate(*k as usize);
                        let mut p = vec![0x91, 0x00, 0xab, 0xcd];
                        for s in &seqs {
                            p.extend_from_slice(&(*s as u32).to_be_bytes());
                        }
                        for j in junk {
                            p.extend_from_slice(&j.to_be_bytes());
                        }
                        p
                    }
                    Dg::Nak(hl, k) => {
                        let hi = idx(*hl, n);
                        let mut seqs: Vec<i32> = sh.st.conns[hi].packet_log.keys().copied().collect();
                        seqs.sort();
                        seqs.truncate(*k as usize);
                        let mut p = vec![0x80, 0x03, 0, 0];
                        for s in &seqs {
                            p.extend_from_slice(&(*s as u32).to_be_bytes());
                        }
                        p.extend_from_slice(&0x7000_0001u32.to_be_bytes());
                        p
                    }
                    Dg::SrtAck(ackn, tail) => {
                        let mut p = vec![0u8; 20 + *tail as usize * 8];
                        p[0] = 0x80;
                        p[1] = 0x02;
                        let v = if *ackn % 3 == 0 { seq } else { *ackn };
                        p[16..20].copy_from_slice(&v.to_be_bytes());
                        p
                    }
                    Dg::Echo(m, tail) => {
                        let base = sh.st.last_keepalive.get(&a).cloned().unwrap_or_else(|| srtla_protocol::create_keepalive_packet(now.saturating_sub(7)).to_vec());
                        let mut b = base.clone();
                        match m {
                            0 => {}                                            // verbatim echo (38 bytes)
                            1 => b.truncate(10),                               // standard 10-byte echo
                            2 => {
                                b.truncate(10);
                                b.extend_from_slice(tail);                     // arbitrary bytes after the header
                            }
                            3 => b.extend_from_slice(tail),
                            4 => b.truncate(2 + (tail.len() % 8)),             // truncated 2..9
                            5 => b[2..10].copy_from_slice(&(now + 5).to_be_bytes()),   // future timestamp
                            6 => b[2..10].copy_from_slice(&0u64.to_be_bytes()),        // zero timestamp
                            7 => b[2..10].copy_from_slice(&now.to_be_bytes()),         // same millisecond
                            8 => b[2..10].copy_from_slice(&now.saturating_sub(10_000).to_be_bytes()),
                            _ => b[2..10].copy_from_slice(&now.saturating_sub(10_001).to_be_bytes()),
                        }
                        b
                    }
                };
                if bytes.is_empty() {
                    continue;
                }
                // ---- reference prediction
                let ty = rc::packet_type(&bytes);
                let internal = ty.is_some_and(|t| INTERNAL.contains(&t));
                let registration = ty.is_some_and(|t| REGISTRATION.contains(&t));
                // independent of the sender's own record: the client is known once it has sent a datagram
                let client_known = client_seen;
                let _ = sh.drain_client();
                let proof_before: Vec<u64> = sh.st.conns.iter().map(|c| c.last_ack_or_rtt_sample_ms).collect();
                let waiting_before = sh.st.conns[li].rtt.waiting_for_keepalive_response;
                let mut holds: Vec<std::collections::BTreeSet<i32>> = sh.st.conns.iter().map(|c| c.packet_log.keys().copied().collect()).collect();
                let mut expect_stamp = vec![false; n];
                if ty == Some(rc::T_SRTLA_ACK) {
                    for x in rc::srtla_ack(&bytes) {
                        let x = x as i32;
                        if holds[li].remove(&x) {
                            expect_stamp[li] = true;
                        } else if let Some(o) = (0..n).find(|o| *o != li && holds[*o].contains(&x)) {
                            holds[o].remove(&x);
                            expect_stamp[o] = true;
                        }
                    }
                }
                if ty == Some(rc::T_KEEPALIVE)
                    && waiting_before
                    && let Some(ts) = rc::keepalive_ts(&bytes)
                {
                    let d = now.saturating_sub(ts);
                    if d > 0 && d <= 10_000 && ts <= now {
                        expect_stamp[li] = true;
                    }
                }
                // ---- the real code
                let r = std::panic::catch_unwind(std::panic::AssertUnwindSafe(|| sh.uplink_pkt(li, &bytes)));
                if let Err(p) = r {
                    return crate::rt::viol("uplink-panic", format!("op {oi}: handle_uplink_packet panicked on {} bytes type {:?}: {}", bytes.len(), ty, crate::rt::panic_text(&p)));
                }
                checked += 1;
                let got = sh.drain_client();
                let _ = sh.drain_wire();
                // ---- relay
                if bytes.len() >= 2 {
                    if internal || !client_known {
                        vensure!(
                            got.is_empty(),
                            if internal { "internal-relayed" } else { "relayed-without-client" },
                            "op {oi}: {} datagram type {:?} len {} produced {} datagram(s) at the client",
                            if internal { "SRTLA-internal" } else { "pre-client" },
                            ty,
                            bytes.len(),
                            got.len()
                        );
                    } else {
                        vensure!(!got.is_empty(), "not-relayed", "op {oi}: datagram type {:?} len {} was not delivered to the client", ty, bytes.len());
                        for g in &got {
                            vensure!(g == &bytes, "relay-modified", "op {oi}: client received {} bytes differing from the {} received on the uplink (type {:?})", g.len(), bytes.len(), ty);
                        }
                        obs.class(if got.len() > 1 { "relayed-more-than-once" } else { "relayed-once" });
                    }
                } else {
                    vensure!(got.is_empty(), "short-relayed", "op {oi}: 1-byte datagram produced client output");
                }
                // ---- liveness
                if bytes.len() >= 2 && !registration {
                    vensure!(sh.st.conns[li].last_received == Some(now), "liveness-not-refreshed", "op {oi}: non-registration datagram type {:?} did not refresh last_received ({:?} vs now {})", ty, sh.st.conns[li].last_received, now);
                }
                // ---- delivery proof
                for i in 0..n {
                    let after = sh.st.conns[i].last_ack_or_rtt_sample_ms;
                    if after != proof_before[i] {
                        let reset = after == 0 && matches!(sh.st.conns[i].phase, LinkPhase::Registering);
                        vensure!(
                            reset || (after == now && expect_stamp[i]),
                            "proof-stamped-wrongly",
                            "op {oi}: link {i} delivery proof moved {} -> {} on a datagram type {:?} len {} (arrival link {li}, waiting={waiting_before})",
                            proof_before[i],
                            after,
                            ty,
                            bytes.len()
                        );
                        if after == now {
                            obs.class(if ty == Some(rc::T_KEEPALIVE) { "proof-from-echo" } else { "proof-from-earned-ack" });
                        }
                    } else if expect_stamp[i] && proof_before[i] != now {
                        return crate::rt::viol("proof-not-stamped", format!("op {oi}: link {i} should have been stamped by type {:?}", ty));
                    }
                }
                let near_guard = GUARDS.iter().any(|g| bytes.len().abs_diff(*g) <= 1);
                let dedicated = ty.is_some_and(|t| INTERNAL.contains(&t) || t == 0x8002 || t == 0x8003);
                if dedicated || near_guard {
                    nontrivial = true;
                }
                if let Some(t) = ty {
                    obs.class(match t {
                        0x9000 => "type-keepalive",
                        0x9100 => "type-srtla-ack",
                        0x9201 | 0x9202 | 0x9210 | 0x9211 => "type-registration",
                        0x8002 => "type-srt-ack",
                        0x8003 => "type-srt-nak",
                        x if x & 0x8000 == 0 => "type-data",
                        _ => "type-other-control",
                    });
                }
                if !client_known {
                    obs.class("before-client-known");
                }
            }
        }
        let _ = sh.drain_wire();
    }
    obs.count("datagrams-checked", checked);
    obs.nontrivial = nontrivial;
    if nontrivial {
        obs.sample = Some(json!({"links": n, "up_mask": case.up_mask, "n_ops": case.ops.len(), "datagrams": checked, "first_ops": format!("{:.300}", format!("{:?}", &case.ops[..case.ops.len().min(4)]))}));
    }
    Ok(())
}

// --------------------------------------------------------------- backlog tier

/// A backlog of uplink datagrams queued by the reader tasks and consumed by the
/// event loop's bounded drain passes: every non-internal one must reach the client.
#[derive(Debug, Clone, Hash, Serialize, Deserialize)]
pub struct Backlog {
    pub n_links: u8,
    /// backlog sizes enqueued before each run of drain passes
    pub rounds: Vec<u16>,
    pub internal_every: u8,
}

fn backlog_strategy() -> impl Strategy<Value = Backlog> {
    (1u8..=3, vec(prop_oneof![2 => 1u16..64, 3 => proptest::sample::select(vec![63u16, 64, 65, 66, 127, 128, 129, 130, 200]), 1 => 64u16..400], 1..4), 0u8..6)
        .prop_map(|(n_links, rounds, internal_every)| Backlog { n_links, rounds, internal_every })
}

pub fn check_backlog(case: &Backlog, obs: &mut Obs) -> CheckResult {
    let n = case.n_links as usize;
    let addrs: Vec<u8> = (0..n as u8).collect();
    let mut sh = Shell::new(&addrs, ConfigSnapshot::default());
    sh.establish_all();
    // a client address must be known
    let mut p = vec![0u8; 32];
    p[0..4].copy_from_slice(&7u32.to_be_bytes());
    sh.client_pkt(&p);
    let _ = sh.drain_client();
    let _ = sh.drain_wire();
    let mut tag = 0u32;
    let mut over_limit = false;
    for r in &case.rounds {
        let mut expected: Vec<Vec<u8>> = Vec::new();
        for k in 0..*r {
            tag += 1;
            let internal = case.internal_every > 0 && k % (case.internal_every as u16 + 3) == 0;
            let mut d = if internal { vec![0x91, 0x00, 0, 0] } else { vec![0x80, 0x07, 0, 0] };
            d.extend_from_slice(&tag.to_be_bytes());
            d.extend_from_slice(&(tag ^ 0x5555_aaaa).to_be_bytes());
            if !internal {
                expected.push(d.clone());
            }
            sh.enqueue_uplink((k as usize) % n, &d);
        }
        if *r > 64 {
            over_limit = true;
        }
        // drain passes until the channel is empty (each pass is bounded)
        let mut got: Vec<Vec<u8>> = Vec::new();
        for _ in 0..(*r as usize / 64 + 3) {
            sh.drain_queue();
            got.extend(sh.drain_client());
        }
        for e in &expected {
            vensure!(got.iter().any(|g| g == e), "backlog-datagram-lost", "a backlog of {} uplink datagrams: datagram tag {} never reached the client ({} of {} relayed)", r, u32::from_be_bytes([e[4], e[5], e[6], e[7]]), got.len(), expected.len());
        }
        for g in &got {
            vensure!(expected.iter().any(|e| e == g), "backlog-unexpected-datagram", "client received a datagram that was not relayed traffic");
        }
    }
    obs.nontrivial = over_limit;
    if over_limit {
        obs.class("backlog-over-one-pass");
        obs.sample = Some(json!({"links": n, "rounds": case.rounds}));
    }
    Ok(())
}

// ------------------------------------------------------------------ real reader tasks

/// The path a receiver datagram really takes: kernel socket -> the uplink's reader task (`spawn_reader`,
/// `BatchUdpSocket::recv_batch`) -> uplink channel -> `drain_packet_queue` -> client. The reader tasks run on the
/// shell's current-thread runtime, i.e. only when the harness lets them: no timing is involved.
#[derive(Debug, Clone, Hash, Serialize, Deserialize)]
pub enum RStep {
    /// `n` datagrams to link `link` in one go (every `internal_every`+3rd one SRTLA-internal), payload length `len`
    Burst {
        link: u16,
        n: u16,
        internal_every: u8,
        len: u16,
        /// > 0: a zero-length datagram is sent before every (`empties`+2)-th datagram of the burst
        #[serde(default)]
        empties: u8,
    },
    /// the link falls silent, times out and is re-opened by the real housekeeping (new socket, reader restarted)
    Reconnect { link: u16 },
    /// a reload replaces this link's address by a new one (same number of links); readers are synced as the loop does
    Swap { link: u16 },
}

#[derive(Debug, Clone, Hash, Serialize, Deserialize)]
pub struct ReaderCase {
    pub n_links: u8,
    pub steps: Vec<RStep>,
}

fn reader_strategy() -> impl Strategy<Value = ReaderCase> {
    let step = prop_oneof![
        6 => (any::<u16>(), prop_oneof![2 => 1u16..32, 3 => proptest::sample::select(vec![31u16, 32, 33, 34, 63, 64, 65, 66, 96, 97, 128, 129]), 2 => 32u16..260], 0u8..5, prop_oneof![Just(8u16), Just(40), 2u16..1400])
            .prop_flat_map(|(link, n, internal_every, len)| prop_oneof![3 => Just(0u8), 2 => 1u8..6].prop_map(move |empties| RStep::Burst { link, n, internal_every, len, empties })),
        1 => any::<u16>().prop_map(|link| RStep::Reconnect { link }),
        1 => any::<u16>().prop_map(|link| RStep::Swap { link }),
    ];
    (1u8..=3, vec(step, 1..5)).prop_map(|(n_links, steps)| ReaderCase { n_links, steps })
}

pub fn check_readers(case: &ReaderCase, obs: &mut Obs) -> CheckResult {
    let n = case.n_links as usize;
    let addrs: Vec<u8> = (0..n as u8).collect();
    let mut sh = Shell::new(&addrs, ConfigSnapshot::default());
    sh.establish_all();
    let mut p = vec![0u8; 32];
    p[0..4].copy_from_slice(&7u32.to_be_bytes());
    sh.client_pkt(&p);
    sh.flush_tick();
    let _ = sh.drain_client();
    let _ = sh.drain_wire();
    sh.sync_readers();
    sh.pump(1);
    let mut tag = 0u32;
    let mut swaps = 0u8;
    // run reader tasks and drain passes until `done` or nothing has moved for a few rounds
    let settle = |sh: &mut Shell, got: &mut Vec<Vec<u8>>, want: usize| {
        let mut idle = 0;
        for _ in 0..400 {
            sh.pump(1);
            sh.drain_queue();
            let before = got.len();
            got.extend(sh.drain_client());
            got.append(&mut sh.st.instant_forwarded);
            if got.len() >= want && want > 0 {
                // one more round so that anything unexpected shows up too
                sh.pump(1);
                sh.drain_queue();
                got.extend(sh.drain_client());
                got.append(&mut sh.st.instant_forwarded);
                break;
            }
            if got.len() == before {
                idle += 1;
                if idle >= 8 {
                    break;
                }
            } else {
                idle = 0;
            }
        }
    };
    for (si, st) in case.steps.iter().enumerate() {
        match st {
            RStep::Burst { link, n: cnt, internal_every, len, empties } => {
                let li = crate::rt::idx(*link, n);
                let mut expected: Vec<Vec<u8>> = Vec::new();
                for k in 0..*cnt {
                    tag += 1;
                    let internal = *internal_every > 0 && k % (*internal_every as u16 + 3) == 0;
                    let mut d = if internal { vec![0x91, 0x00, 0, 0] } else if k % 3 == 0 { vec![0x80, 0x02, 0, 0] } else { vec![0x80, 0x07, 0, 0] };
                    d.extend_from_slice(&tag.to_be_bytes());
                    d.resize(d.len().max(*len as usize), (tag as u8).wrapping_mul(13));
                    if !internal {
                        expected.push(d.clone());
                    }
                    if *empties > 0 && k % (*empties as u16 + 2) == 0 {
                        // a zero-length UDP datagram: nothing to relay, but it must not cost its neighbours anything
                        let _ = sh.rx_send_link(li, &[]);
                        obs.class("zero-length-datagram-in-burst");
                    }
                    vensure!(sh.rx_send_link(li, &d), "harness", "step {si}: cannot send to link {li}");
                }
                let mut got: Vec<Vec<u8>> = Vec::new();
                settle(&mut sh, &mut got, expected.len());
                let missing = expected.iter().filter(|e| !got.contains(e)).count();
                vensure!(
                    missing == 0,
                    "reader-datagram-stranded",
                    "step {si}: {cnt} datagrams arrived on link {li}'s socket in one burst; {missing} of the {} relayable ones never reached the client although the reader task and the drain passes ran until nothing moved",
                    expected.len()
                );
                for g in &got {
                    vensure!(expected.contains(g), "reader-unexpected-datagram", "step {si}: the client received a datagram that is not relayable traffic of this burst ({} bytes, type {:?})", g.len(), rc::packet_type(g));
                }
                if *cnt > 32 {
                    obs.nontrivial = true;
                    obs.class("burst-over-one-recvmmsg");
                }
            }
            RStep::Swap { link } => {
                let li = crate::rt::idx(*link, n);
                swaps += 1;
                let fresh = crate::engine::shell::link_ip(20 + swaps);
                let list: Vec<std::net::IpAddr> = sh.st.conns.iter().enumerate().map(|(i, c)| if i == li { fresh } else { c.local_ip }).collect();
                sh.apply_ips(&list);
                sh.sync_readers();
                let Some(ni) = sh.st.conns.iter().position(|c| c.local_ip == fresh) else {
                    return crate::rt::viol("harness", format!("step {si}: the reload did not add {fresh}"));
                };
                // the new link registers through its own socket and reader
                vensure!(sh.rx_send_link(ni, &[0x92, 0x02]), "harness", "step {si}: cannot send to the new link");
                let mut sink = Vec::new();
                settle(&mut sh, &mut sink, 0);
                vensure!(sh.st.conns[ni].connected, "reader-not-started", "step {si}: a reload replaced one address by another; the REG3 sent to the new link's socket was never processed");
                obs.nontrivial = true;
                obs.class("address-swapped-by-reload");
            }
            RStep::Reconnect { link } => {
                let li = crate::rt::idx(*link, n);
                let old_port = sh.local_port(li);
                let timeout = sh.st.cfg.conn_timeout_ms;
                sh.advance(timeout + 1);
                // the other links were heard from in the meantime
                for j in 0..n {
                    if j != li {
                        sh.uplink_pkt(j, &[0x80, 0x06, 0, 0, 0, 0, 0, 0, 0, 0, 0, 0, 0, 0, 0, 0]);
                    }
                }
                let _ = sh.drain_client();
                sh.st.instant_forwarded.clear();
                sh.housekeeping_core();
                let new_port = sh.local_port(li);
                let _ = sh.drain_wire();
                if new_port == old_port || new_port == 0 {
                    obs.class("reconnect-not-due");
                    continue;
                }
                vensure!(!sh.st.conns[li].connected, "harness", "step {si}: link {li} still connected after its socket was re-opened");
                // let the runtime retire the replaced reader, then a late REG3 addressed to the replaced socket
                sh.pump(1);
                let _ = sh.rx_send_port(li, old_port, &[0x92, 0x02]);
                let mut sink = Vec::new();
                settle(&mut sh, &mut sink, 0);
                vensure!(!sh.st.conns[li].connected, "replaced-socket-still-heard", "step {si}: link {li} re-opened its socket (port {old_port} -> {new_port}); a REG3 sent to the replaced socket made it connected");
                // the REG3 on the current socket must be heard (reader restarted on the new socket)
                vensure!(sh.rx_send_link(li, &[0x92, 0x02]), "harness", "step {si}: cannot send to link {li}");
                settle(&mut sh, &mut sink, 0);
                vensure!(sh.st.conns[li].connected, "reader-not-restarted", "step {si}: link {li} re-opened its socket; the REG3 sent to the new socket was never processed");
                obs.nontrivial = true;
                obs.class("socket-replaced");
            }
        }
    }
    if obs.nontrivial {
        obs.sample = Some(json!({"links": n, "steps": format!("{:?}", case.steps)}));
    }
    Ok(())
}

pub fn run(ctx: &Ctx) -> &'static str {
    ctx.assume("reference classification uses the first two bytes only; internal = {0x9000, 0x9100, 0x9201, 0x9202, 0x9210, 0x9211}; registration replies = {0x9201, 0x9202, 0x9210, 0x9211}");
    ctx.assume("delivery proof may also be cleared (to 0) by the link reset a REG_ERR causes; that is not 'counting as proof'");
    for (file, body) in ctx.replay_files() {
        if !(ctx.replay_case::<Case, _>("datagrams", &file, &body, check) || ctx.replay_case::<Backlog, _>("backlog", &file, &body, check_backlog) || ctx.replay_case::<ReaderCase, _>("readers", &file, &body, check_readers)) {
            eprintln!("replay {}: unknown part", file.display());
        }
    }
    if ctx.replay.is_some() {
        return "exploration";
    }
    let mo = ctx.tier.pick(40, 100);
    ctx.explore(
        "datagrams",
        "structure-aware datagrams (every type code reachable, all SRTLA/SRT types over-weighted, lengths around every parser guard up to 1500, SRTLA ACKs naming held seqs, keepalive echoes verbatim/late/truncated/future/zero/tail-extended, NAKs, SRT ACKs) through the real handle_uplink_packet on 1..3 links in generated states (registering, probing, warming, live, awaiting echo or not, with outstanding seqs or not, client known or not); relay, liveness and delivery-proof oracle; non-trivial = a datagram of a type with a dedicated branch or a length within 1 of a guard",
        ctx.tier.pick(60_000, 600_000),
        || strategy(mo),
        |_| check,
    );
    ctx.explore(
        "backlog",
        "backlogs of 1..399 uplink datagrams (sizes around the 64-per-pass drain limit) enqueued on the uplink channel as the reader tasks do and consumed by the real bounded drain_packet_queue passes: every non-internal datagram reaches the client, nothing else does; non-trivial = a backlog larger than one pass",
        ctx.tier.pick(600, 10_000),
        backlog_strategy,
        |_| check_backlog,
    );
    ctx.explore(
        "readers",
        "receiver datagrams through the kernel: bursts of 1..260 datagrams (around 32 / 64 / 128, payload 8..1400 bytes, some SRTLA-internal) sent to a link's socket, read by the real reader task (spawn_reader / BatchUdpSocket::recv_batch) on the shell's current-thread runtime, drained by the real drain_packet_queue; links timing out and re-opened by the real housekeeping in between (a REG3 to the replaced socket must fall on deaf ears, one to the new socket must be heard); every relayable datagram reaches the client, nothing else does; non-trivial = a burst of more than 32 datagrams or a replaced socket",
        ctx.tier.pick(1_500, 30_000),
        reader_strategy,
        |_| check_readers,
    );
    // the real reader tasks, uplink channel and drain passes
    crate::props::e2e::run(ctx, crate::props::e2e::Phase::Relay, ctx.tier.pick(1, 6));
    if ctx.tier == crate::rt::Tier::Thorough {
        crate::fuzzrun::campaign(ctx, "c09_uplink", 300);
    }
    "exploration"
}

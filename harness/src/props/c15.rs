//! C15 — wire codec is total, bounded and layout-exact.
//! Differential against `refmodel::codec`; exhaustive for short inputs and all
//! type codes at every guard length; generated beyond that.

use proptest::collection::vec;
use proptest::prelude::*;
use serde::{Deserialize, Serialize};
use serde_json::json;
use srtla_protocol as sp;

use crate::refmodel::codec as rc;
use crate::rt::{CheckResult, Ctx, Obs, viol};

const GUARDS: &[usize] = &[
    0, 1, 2, 3, 4, 5, 7, 8, 9, 10, 11, 12, 15, 16, 19, 20, 21, 24, 37, 38, 39, 257, 258, 259,
];

const KNOWN_TYPES: &[u16] = &[
    0x9000, 0x9100, 0x9200, 0x9201, 0x9202, 0x9210, 0x9211, 0x9212, 0x8000, 0x8001, 0x8002, 0x8003,
    0x8004, 0x8005, 0x8006, 0x8007, 0x0000, 0x0001, 0x7fff, 0x4000,
];

fn hex(b: &[u8]) -> String {
    let mut s = String::new();
    for x in b.iter().take(48) {
        s.push_str(&format!("{x:02x}"));
    }
    if b.len() > 48 {
        s.push_str(&format!("..(+{} bytes)", b.len() - 48));
    }
    s
}

/// All decoders against the reference on one byte string.
pub fn check_bytes(b: &[u8], obs: &mut Obs) -> CheckResult {
    let mut hits = 0u32;
    // type
    let pt = sp::get_packet_type(b);
    vensure!(pt == rc::packet_type(b), "decode-type", "get_packet_type {:?} != ref {:?} on {}", pt, rc::packet_type(b), hex(b));
    // data sequence number
    let sn = sp::get_srt_sequence_number(b);
    vensure!(sn == rc::srt_seq(b), "decode-seq", "get_srt_sequence_number {:?} != ref {:?} on {}", sn, rc::srt_seq(b), hex(b));
    if sn.is_some() {
        hits += 1;
    }
    // retransmit flag
    let rt = sp::is_srt_data_retransmit(b);
    if let Some(exp) = rc::is_retransmit(b) {
        vensure!(rt == exp, "decode-retransmit", "is_srt_data_retransmit {} != ref {} on {}", rt, exp, hex(b));
    }
    if rt {
        hits += 1;
        obs.class("retransmit-flag");
    }
    // SRT ACK
    let a = sp::parse_srt_ack(b);
    vensure!(a == rc::srt_ack(b), "decode-srt-ack", "parse_srt_ack {:?} != ref {:?} on {}", a, rc::srt_ack(b), hex(b));
    if a.is_some() {
        hits += 1;
        obs.class("srt-ack");
    }
    vensure!(sp::is_srt_ack(b) == (rc::packet_type(b) == Some(rc::T_SRT_ACK)), "decode-pred", "is_srt_ack wrong on {}", hex(b));
    // SRTLA ACK
    let la = sp::parse_srtla_ack(b);
    let rla = rc::srtla_ack(b);
    vensure!(la.as_slice() == rla.as_slice(), "decode-srtla-ack", "parse_srtla_ack {:?} != ref {:?} on {}", la.as_slice(), rla, hex(b));
    if !rla.is_empty() {
        hits += 1;
        obs.class("srtla-ack");
    }
    // keepalive
    let ts = sp::extract_keepalive_timestamp(b);
    vensure!(ts == rc::keepalive_ts(b), "decode-keepalive-ts", "extract_keepalive_timestamp {:?} != ref {:?} on {}", ts, rc::keepalive_ts(b), hex(b));
    if ts.is_some() {
        hits += 1;
        obs.class("keepalive");
    }
    vensure!(sp::is_srtla_keepalive(b) == (rc::packet_type(b) == Some(rc::T_KEEPALIVE)), "decode-pred", "is_srtla_keepalive wrong on {}", hex(b));
    let ci = sp::extract_keepalive_conn_info(b).map(|c| rc::RefConnInfo {
        conn_id: c.conn_id,
        window: c.window,
        in_flight: c.in_flight,
        rtt_ms: c.rtt_ms,
        nak_count: c.nak_count,
        rate: c.bitrate_bytes_per_sec,
    });
    vensure!(ci == rc::keepalive_info(b), "decode-keepalive-info", "extract_keepalive_conn_info {:?} != ref {:?} on {}", ci, rc::keepalive_info(b), hex(b));
    if ci.is_some() {
        hits += 1;
        obs.class("keepalive-ext");
    }
    // REG predicates: exact lengths
    let t = rc::packet_type(b);
    vensure!(sp::is_srtla_reg1(b) == (b.len() == 258 && t == Some(rc::T_REG1)), "decode-pred", "is_srtla_reg1 wrong on len {} type {:?}", b.len(), t);
    vensure!(sp::is_srtla_reg2(b) == (b.len() == 258 && t == Some(rc::T_REG2)), "decode-pred", "is_srtla_reg2 wrong on len {} type {:?}", b.len(), t);
    vensure!(sp::is_srtla_reg3(b) == (b.len() == 2 && t == Some(rc::T_REG3)), "decode-pred", "is_srtla_reg3 wrong on len {} type {:?}", b.len(), t);
    if sp::is_srtla_reg1(b) || sp::is_srtla_reg2(b) || sp::is_srtla_reg3(b) {
        hits += 1;
        obs.class("reg-frame");
    }
    // NAK
    let nk = sp::parse_srt_nak(b);
    let bound = 1000 + b.len() / 4;
    vensure!(nk.len() <= bound, "nak-bound", "parse_srt_nak produced {} entries > bound {} on {}", nk.len(), bound, hex(b));
    let np = rc::nak_items(b);
    if !np.is_nak {
        vensure!(nk.is_empty(), "decode-nak", "parse_srt_nak non-empty on a non-NAK input {}", hex(b));
    } else {
        hits += 1;
        obs.class("nak");
        let full = rc::nak_full_len(&np.items);
        if np.well_formed && full <= 1000 {
            let exp = rc::nak_full(&np.items, 1001);
            vensure!(nk.as_slice() == exp.as_slice(), "decode-nak", "parse_srt_nak {:?} != ref {:?} on {}", &nk.as_slice()[..nk.len().min(12)], &exp[..exp.len().min(12)], hex(b));
            if np.items.iter().any(|i| matches!(i, rc::NakItem::Range(..))) {
                obs.class("nak-range");
            }
        } else {
            obs.class(if np.well_formed { "nak-over-cap" } else { "nak-malformed" });
            // No invention, order kept: every entry is covered by the list, in list order.
            let mut cur = 0usize;
            let mut last_in_range: Option<u32> = None;
            for &v in nk.iter() {
                let mut ok = false;
                while cur < np.items.len() {
                    match np.items[cur] {
                        rc::NakItem::Single(s) => {
                            cur += 1;
                            last_in_range = None;
                            if s == v {
                                ok = true;
                                break;
                            }
                        }
                        rc::NakItem::Range(s, e) => {
                            let lo = match last_in_range {
                                Some(l) => l.checked_add(1),
                                None => Some(s),
                            };
                            if let Some(lo) = lo
                                && v >= lo
                                && v <= e
                                && (np.well_formed || e >> 31 == 1 || v >= s)
                            {
                                last_in_range = Some(v);
                                ok = true;
                                break;
                            }
                            cur += 1;
                            last_in_range = None;
                        }
                    }
                }
                // a malformed end word (marker bit set) admits wrapped expansions; only the bound applies.
                // A list that merely ends after a range marker is truncated: what is completely present still
                // bounds the output (a marker word is never a lost sequence number by itself).
                if !ok && (np.well_formed || !np.bad_end) {
                    return viol("decode-nak", format!("parse_srt_nak entry {v} ({v:#x}) is not covered by the loss list of {}", hex(b)));
                }
                if !ok {
                    break;
                }
            }
        }
    }
    // near a guard with a known type?
    let near_guard = GUARDS.iter().any(|g| b.len().abs_diff(*g) <= 1) && t.is_some_and(|t| KNOWN_TYPES.contains(&t));
    obs.nontrivial = hits > 0 || (near_guard && b.len() >= 2);
    if obs.nontrivial && obs.sample.is_none() {
        obs.sample = Some(json!({"len": b.len(), "hex": hex(b)}));
    }
    Ok(())
}

#[derive(Debug, Clone, Hash, Serialize, Deserialize)]
pub enum Built {
    Reg1(Vec<u8>),
    Reg2(Vec<u8>),
    Keepalive(u64),
    KeepaliveExt { conn_id: u32, window: i32, in_flight: i32, rtt_ms: u32, nak: u32, rate: u32, now: u64 },
    Ack(Vec<u32>),
}

pub fn check_built(c: &Built, obs: &mut Obs) -> CheckResult {
    obs.nontrivial = true;
    match c {
        Built::Reg1(id) | Built::Reg2(id) => {
            let mut arr = [0u8; 256];
            arr.copy_from_slice(&id[..256]);
            let (pkt, ty) = match c {
                Built::Reg1(_) => (sp::create_reg1_packet(&arr), rc::T_REG1),
                _ => (sp::create_reg2_packet(&arr), rc::T_REG2),
            };
            vensure!(pkt.len() == 258, "build-reg", "REG frame length {} != 258", pkt.len());
            vensure!(rc::packet_type(&pkt) == Some(ty), "build-reg", "REG frame type {:?} != {:#x}", rc::packet_type(&pkt), ty);
            vensure!(pkt[2..] == arr[..], "build-reg", "REG frame does not carry the id at bytes 2..258");
            vensure!(if ty == rc::T_REG1 { sp::is_srtla_reg1(&pkt) } else { sp::is_srtla_reg2(&pkt) }, "build-reg", "built REG frame not recognised by its own predicate");
            obs.class("build-reg");
            check_bytes(&pkt, &mut Obs::default())
        }
        Built::Keepalive(now) => {
            let pkt = sp::create_keepalive_packet(*now);
            vensure!(pkt.len() == 10, "build-keepalive", "keepalive length {}", pkt.len());
            vensure!(rc::keepalive_ts(&pkt) == Some(*now), "build-keepalive", "keepalive ts {:?} != {}", rc::keepalive_ts(&pkt), now);
            vensure!(sp::extract_keepalive_timestamp(&pkt) == Some(*now), "build-keepalive", "own decoder disagrees");
            obs.class("build-keepalive");
            check_bytes(&pkt, &mut Obs::default())
        }
        Built::KeepaliveExt { conn_id, window, in_flight, rtt_ms, nak, rate, now } => {
            let info = sp::ConnectionInfo {
                conn_id: *conn_id,
                window: *window,
                in_flight: *in_flight,
                rtt_ms: *rtt_ms,
                nak_count: *nak,
                bitrate_bytes_per_sec: *rate,
            };
            let pkt = sp::create_keepalive_packet_ext(info, *now);
            vensure!(pkt.len() == 38, "build-keepalive-ext", "extended keepalive length {}", pkt.len());
            vensure!(rc::keepalive_ts(&pkt) == Some(*now), "build-keepalive-ext", "ts {:?} != {}", rc::keepalive_ts(&pkt), now);
            let exp = rc::RefConnInfo { conn_id: *conn_id, window: *window, in_flight: *in_flight, rtt_ms: *rtt_ms, nak_count: *nak, rate: *rate };
            vensure!(rc::keepalive_info(&pkt) == Some(exp), "build-keepalive-ext", "reference decode {:?} != built {:?}", rc::keepalive_info(&pkt), exp);
            vensure!(sp::extract_keepalive_conn_info(&pkt) == Some(info), "build-keepalive-ext", "own decoder does not round-trip");
            // first 10 bytes are a standard keepalive
            vensure!(pkt[..10] == sp::create_keepalive_packet(*now)[..], "build-keepalive-ext", "first 10 bytes are not a standard keepalive");
            obs.class("build-keepalive-ext");
            check_bytes(&pkt, &mut Obs::default())
        }
        Built::Ack(list) => {
            let pkt = sp::create_ack_packet(list);
            vensure!(pkt.len() == 4 + 4 * list.len(), "build-ack", "SRTLA ACK length {} != {}", pkt.len(), 4 + 4 * list.len());
            vensure!(rc::packet_type(&pkt) == Some(rc::T_SRTLA_ACK), "build-ack", "type");
            if !list.is_empty() {
                vensure!(rc::srtla_ack(&pkt) == *list, "build-ack", "reference decode {:?} != {:?}", rc::srtla_ack(&pkt), list);
                vensure!(sp::parse_srtla_ack(&pkt).as_slice() == list.as_slice(), "build-ack", "own decoder does not round-trip");
            }
            obs.class("build-ack");
            check_bytes(&pkt, &mut Obs::default())
        }
    }
}

fn edge_u32() -> impl Strategy<Value = u32> {
    prop_oneof![
        Just(0u32),
        Just(1),
        Just(0x7fff_ffff),
        Just(0x8000_0000),
        Just(u32::MAX),
        Just(u32::MAX - 1),
        any::<u32>(),
        0u32..5000,
    ]
}

/// NAK loss lists built from items (ranges with end<start, end=MAX, overlap, >1000 expansion).
fn nak_frame() -> impl Strategy<Value = Vec<u8>> {
    let good = prop_oneof![
        4 => edge_u32().prop_map(|s| vec![s & 0x7fff_ffff]),
        4 => (0u32..0x7fff_0000, 0u32..40).prop_map(|(s, n)| vec![s | 0x8000_0000, s + n]),
        1 => (1u32..0x7fff_ffff, 1u32..100).prop_map(|(s, n)| vec![s | 0x8000_0000, s.saturating_sub(n)]),
    ];
    let big = prop_oneof![
        3 => (0u32..0x7fff_0000, 900u32..1300).prop_map(|(s, n)| vec![s | 0x8000_0000, s + n]),
        1 => (0u32..0x7fff_ffff).prop_map(|s| vec![s | 0x8000_0000, 0x7fff_ffff]),
        // short ranges that end at (or, with the top bit set in the end word, beyond) the top of the 31-bit space
        2 => (0u32..40, prop_oneof![Just(0x7fff_ffffu32), Just(0xffff_ffff), Just(0x8000_0000), Just(0x7fff_fffe)]).prop_map(|(n, e)| vec![(0x7fff_ffff - n) | 0x8000_0000, e]),
    ];
    let bad = prop_oneof![
        (edge_u32(), edge_u32()).prop_map(|(s, e)| vec![s | 0x8000_0000, e | 0x8000_0000]),
        edge_u32().prop_map(|s| vec![s | 0x8000_0000]),
    ];
    (
        vec(good, 0..40),
        proptest::option::weighted(0.15, big),
        proptest::option::weighted(0.15, bad),
        any::<[u8; 2]>(),
        0usize..4,
        any::<u16>(),
    )
        .prop_map(|(mut items, big, bad, pad, tail, pos)| {
            if let Some(b) = big {
                let at = crate::rt::idx(pos, items.len() + 1);
                items.insert(at, b);
            }
            if let Some(b) = bad {
                // a truncated range can only be the last item
                if b.len() == 1 {
                    items.push(b);
                } else {
                    let at = crate::rt::idx(pos, items.len() + 1);
                    items.insert(at, b);
                }
            }
            let mut b = vec![0x80, 0x03, pad[0], pad[1]];
            for it in items {
                for w in it {
                    b.extend_from_slice(&w.to_be_bytes());
                }
            }
            for i in 0..tail {
                b.push(i as u8 ^ 0x5a);
            }
            b
        })
}

fn typed_frame() -> impl Strategy<Value = Vec<u8>> {
    let ty = prop_oneof![
        6 => proptest::sample::select(KNOWN_TYPES.to_vec()),
        1 => any::<u16>(),
    ];
    let len = prop_oneof![
        4 => proptest::sample::select(GUARDS.to_vec()),
        1 => 0usize..=1500,
        1 => Just(1500usize),
    ];
    (ty, len, vec(any::<u8>(), 64), any::<u8>()).prop_map(|(ty, len, seedb, fill)| {
        let mut b = Vec::with_capacity(len);
        b.extend_from_slice(&ty.to_be_bytes());
        let mut i = 0usize;
        while b.len() < len {
            b.push(if i < seedb.len() { seedb[i] } else { fill.wrapping_add(i as u8) });
            i += 1;
        }
        b.truncate(len);
        b
    })
}

/// A valid extended keepalive with a few bytes mutated / truncated.
fn near_keepalive() -> impl Strategy<Value = Vec<u8>> {
    (any::<u64>(), any::<[u32; 6]>(), vec((0usize..40, any::<u8>()), 0..3), 0usize..=40).prop_map(
        |(now, f, muts, cut)| {
            let info = sp::ConnectionInfo {
                conn_id: f[0],
                window: f[1] as i32,
                in_flight: f[2] as i32,
                rtt_ms: f[3],
                nak_count: f[4],
                bitrate_bytes_per_sec: f[5],
            };
            let mut b = sp::create_keepalive_packet_ext(info, now).to_vec();
            b.extend_from_slice(&[0xaa, 0xbb]);
            for (i, v) in muts {
                if i < b.len() {
                    b[i] = v;
                }
            }
            b.truncate(cut.max(0));
            b
        },
    )
}

fn bytes_strategy() -> impl Strategy<Value = Vec<u8>> {
    prop_oneof![
        2 => vec(any::<u8>(), 0..=40),
        1 => vec(any::<u8>(), 0..=1500),
        4 => typed_frame(),
        3 => nak_frame(),
        2 => near_keepalive(),
    ]
}

fn built_strategy() -> impl Strategy<Value = Built> {
    prop_oneof![
        vec(any::<u8>(), 256).prop_map(Built::Reg1),
        vec(any::<u8>(), 256).prop_map(Built::Reg2),
        prop_oneof![Just(0u64), Just(u64::MAX), any::<u64>()].prop_map(Built::Keepalive),
        (any::<[u32; 6]>(), prop_oneof![Just(0u64), Just(u64::MAX), any::<u64>()]).prop_map(|(f, now)| Built::KeepaliveExt {
            conn_id: f[0],
            window: f[1] as i32,
            in_flight: f[2] as i32,
            rtt_ms: f[3],
            nak: f[4],
            rate: f[5],
            now,
        }),
        prop_oneof![3 => vec(edge_u32(), 0..300), 1 => vec(edge_u32(), 370..380), 1 => vec(edge_u32(), 300..2000)].prop_map(Built::Ack),
    ]
}

#[derive(Debug, Clone, Hash, Serialize, Deserialize)]
pub struct TypedCase {
    ty: u16,
    len: u16,
    body: u8,
}

fn typed_bytes(c: &TypedCase) -> Vec<u8> {
    let mut b = Vec::with_capacity(c.len as usize);
    b.extend_from_slice(&c.ty.to_be_bytes());
    let mut i = 0u32;
    while b.len() < c.len as usize {
        b.push(match c.body {
            0 => 0x00,
            1 => 0xff,
            2 => (i as u8).wrapping_mul(37).wrapping_add(11),
            _ => {
                if i % 4 == 0 {
                    0x80
                } else {
                    0x01
                }
            }
        });
        i += 1;
    }
    b.truncate(c.len as usize);
    b
}

// ------------------------------------------------- decoders that live in stateful / glue code

/// The registration manager decodes REG2 (the id) only in the state "REG1 outstanding on this link".
#[derive(Debug, Clone, Hash, Serialize, Deserialize)]
pub struct RegFrame {
    /// 0 fresh manager, 1 REG1 outstanding on `pending`, 2 an id was adopted earlier and a new REG1 is outstanding
    pub state: u8,
    pub pending: u8,
    pub arrive: u8,
    /// 0 REG2, 1 REG3, 2 REG_ERR, 3 REG_NGP, 4 REG1 (not a reply), 5 keepalive
    pub ty: u8,
    pub len: u16,
}

pub fn check_reg_frame(c: &RegFrame, obs: &mut Obs) -> CheckResult {
    use srtla_core::registration::SrtlaRegistrationManager;
    let now = crate::engine::core::T0;
    let mut reg = SrtlaRegistrationManager::new();
    let mut first_id = [0u8; 256];
    for (i, x) in first_id.iter_mut().enumerate() {
        *x = (i as u8).wrapping_mul(3).wrapping_add(1);
    }
    if c.state == 2 {
        let _ = reg.build_reg1_for(c.pending as usize, now);
        let mut f = vec![0x92u8, 0x01];
        f.extend_from_slice(&first_id);
        let _ = reg.process_registration_packet(c.pending as usize, &f, now);
        vensure!(reg.srtla_id()[..] == first_id[..], "decode-reg2-id", "set-up: a 258-byte REG2 on the pending link was not adopted");
    }
    if c.state >= 1 {
        let _ = reg.build_reg1_for(c.pending as usize, now + 10);
    }
    let ty: u16 = [0x9201u16, 0x9202, 0x9210, 0x9211, 0x9200, 0x9000][c.ty as usize % 6];
    let mut frame = vec![0u8; c.len as usize];
    for (i, x) in frame.iter_mut().enumerate() {
        *x = (i as u8).wrapping_mul(7).wrapping_add(0x55);
    }
    if frame.len() >= 2 {
        frame[0] = (ty >> 8) as u8;
        frame[1] = ty as u8;
    }
    let before = *reg.srtla_id();
    let r = std::panic::catch_unwind(std::panic::AssertUnwindSafe(|| reg.process_registration_packet(c.arrive as usize, &frame, now + 20)));
    if let Err(p) = r {
        return viol("decode-panic", format!("process_registration_packet panicked on a {}-byte frame of type {:#06x} (state {}, REG1 outstanding on link {}, frame on link {}): {}", frame.len(), ty, c.state, c.pending, c.arrive, crate::rt::panic_text(&p)));
    }
    let adopt = c.state >= 1 && c.ty % 6 == 0 && c.arrive == c.pending && frame.len() >= 258;
    if adopt {
        vensure!(reg.srtla_id()[..] == frame[2..258], "decode-reg2-id", "a {}-byte REG2 on the link with the REG1 outstanding: adopted id is not bytes 2..258 of the frame", frame.len());
        obs.nontrivial = true;
        if frame.len() > 258 {
            obs.class("reg2-longer-than-258-adopted");
        }
    } else {
        vensure!(reg.srtla_id()[..] == before[..], "decode-reg2-id", "a {}-byte frame of type {:#06x} (state {}, pending {}, arrival {}) changed the adopted id", frame.len(), ty, c.state, c.pending, c.arrive);
        if c.ty % 6 == 0 && (256..=258).contains(&frame.len()) {
            obs.nontrivial = true;
        }
    }
    Ok(())
}

/// What the listener arm (`handle_srt_packet`, with the loop's reused MTU-sized receive buffer) attaches to
/// each client datagram: the tracked sequence number must be the reference decoder's reading of exactly the
/// bytes that were received, whatever an earlier, longer datagram left behind in the buffer.
pub fn check_glue(case: &Vec<Vec<u8>>, obs: &mut Obs) -> CheckResult {
    use crate::engine::shell::Shell;
    let mut sh = Shell::new(&[0, 1], srtla_core::ConfigSnapshot::default());
    sh.establish_all();
    let mut prev_len = 0usize;
    for (k, d) in case.iter().enumerate() {
        if d.is_empty() {
            continue;
        }
        sh.client_pkt(d);
        for (i, c) in sh.st.conns.iter().enumerate() {
            for (bytes, seq) in c.batch_sender.verif_queue_snapshot() {
                let want = rc::srt_seq(&bytes);
                vensure!(seq == want, "glue-decode-seq", "datagram {k} ({} bytes, after one of {prev_len} bytes): queued on link {i} with tracked sequence number {:?}, the bytes say {:?}", bytes.len(), seq, want);
            }
        }
        if d.len() < 4 && prev_len > d.len() {
            obs.nontrivial = true;
            obs.class("runt-after-longer-datagram");
        }
        prev_len = d.len();
        if k % 8 == 7 {
            sh.flush_tick();
        }
        let _ = sh.drain_wire();
    }
    Ok(())
}

/// The frame the sender really builds for a keepalive comes from a connection (`SrtlaConnection::keepalive_packet`),
/// not from the bare builder: it must decode back to the time and the link state it was built from, whatever came
/// before (earlier keepalives with or without an echo, traffic, NAKs).
#[derive(Debug, Clone, Hash, Serialize, Deserialize)]
pub enum KaStep {
    Keepalive(u16),
    Echo(u16),
    Traffic(u8),
    Nak(u8),
    Queue(u8),
}

pub fn check_conn_keepalives(steps: &Vec<KaStep>, obs: &mut Obs) -> CheckResult {
    use crate::engine::core::{T0, apply_keepalive_echo, apply_reg3, new_link};
    let mut now = T0;
    let mut c = new_link(0, now);
    apply_reg3(&mut c, now);
    let mut seq = 1i32;
    let mut last_sent: Option<u64> = None;
    let mut frames = 0;
    for (i, st) in steps.iter().enumerate() {
        match st {
            KaStep::Keepalive(dt) => {
                now += *dt as u64;
                let (w, f, nk, bps) = (c.window, c.in_flight_packets, c.total_nak_count(), c.bitrate.current_bitrate_bps);
                let frame = c.keepalive_packet(now);
                vensure!(frame.len() == 38, "built-keepalive", "step {i}: keepalive_packet built {} bytes", frame.len());
                vensure!(rc::keepalive_ts(&frame) == Some(now), "built-keepalive", "step {i}: keepalive built at {} carries timestamp {:?} (previous keepalive at {:?})", now - T0, rc::keepalive_ts(&frame).map(|t| t as i64 - T0 as i64), last_sent.map(|t| t - T0));
                vensure!(sp::extract_keepalive_timestamp(&frame) == Some(now), "built-keepalive", "step {i}: own decoder reads another timestamp");
                let info = rc::keepalive_info(&frame);
                vensure!(info.is_some(), "built-keepalive", "step {i}: frame lacks the extended magic / version");
                let info = info.unwrap();
                vensure!(info.window == w && info.in_flight == f && info.nak_count == nk as u32 && info.rate == (bps / 8.0) as u32, "built-keepalive", "step {i}: telemetry (window {}, in-flight {}, naks {}, rate {}) != link state (window {w}, in-flight {f}, naks {nk}, rate {})", info.window, info.in_flight, info.nak_count, info.rate, (bps / 8.0) as u32);
                if last_sent.is_some() {
                    obs.nontrivial = true;
                }
                last_sent = Some(now);
                frames += 1;
            }
            KaStep::Echo(dt) => {
                now += *dt as u64;
                if let Some(t) = last_sent {
                    let _ = apply_keepalive_echo(&mut c, t, now);
                }
            }
            KaStep::Traffic(k) => {
                for _ in 0..*k {
                    c.register_packet(seq, now);
                    seq += 1;
                }
                c.bitrate.current_bitrate_bps = (*k as f64) * 1316.0 * 8.0;
            }
            KaStep::Nak(k) => {
                for _ in 0..*k {
                    c.register_packet(seq, now);
                    c.handle_nak(seq, now);
                    seq += 1;
                }
            }
            KaStep::Queue(k) => {
                for _ in 0..(*k).min(20) {
                    let mut p = [0u8; 32];
                    p[0..4].copy_from_slice(&(seq as u32).to_be_bytes());
                    c.queue_data_packet(&p, Some(seq as u32), now);
                    seq += 1;
                }
            }
        }
    }
    let _ = frames;
    Ok(())
}

fn ka_strategy() -> impl Strategy<Value = Vec<KaStep>> {
    let st = prop_oneof![
        5 => prop_oneof![Just(1000u16), Just(999), Just(1001), 1u16..4000].prop_map(KaStep::Keepalive),
        2 => prop_oneof![Just(0u16), Just(40), 1u16..1500].prop_map(KaStep::Echo),
        1 => (1u8..60).prop_map(KaStep::Traffic),
        1 => (1u8..6).prop_map(KaStep::Nak),
        1 => (1u8..20).prop_map(KaStep::Queue),
    ];
    vec(st, 2..30)
}

fn glue_strategy() -> impl Strategy<Value = Vec<Vec<u8>>> {
    let d = prop_oneof![
        3 => vec(any::<u8>(), 1..4),
        2 => vec(any::<u8>(), 4..20),
        2 => (0u32..0x7fff_ffff, 16usize..1500).prop_map(|(s, n)| {
            let mut p = vec![0xa5u8; n];
            p[0..4].copy_from_slice(&s.to_be_bytes());
            p
        }),
        1 => (any::<u16>(), 2usize..60).prop_map(|(t, n)| {
            let mut p = vec![0u8; n];
            p[0] = 0x80 | (t >> 8) as u8;
            p[1] = t as u8;
            p
        }),
    ];
    vec(d, 1..24)
}

pub fn run(ctx: &Ctx) -> &'static str {
    ctx.assume("reference decoder refmodel::codec is written from the C15 layout statement and the SRT/SRTLA header docs, sharing no code with srtla-protocol");
    ctx.assume("retransmit flag on a data header truncated to 5..7 bytes: statement leaves it open, both answers accepted");
    ctx.assume("NAK lists whose full expansion exceeds 1000 entries or that are malformed: only no-invention, order and the size bound are asserted");

    // replay tier
    for (file, body) in ctx.replay_files() {
        let done = ctx.replay_case::<Vec<u8>, _>("bytes", &file, &body, |c, o| check_bytes(c, o))
            || ctx.replay_case::<Vec<u8>, _>("short-exhaustive", &file, &body, |c, o| check_bytes(c, o))
            || ctx.replay_case::<TypedCase, _>("types-x-guards", &file, &body, |c, o| check_bytes(&typed_bytes(c), o))
            || ctx.replay_case::<Built, _>("builders", &file, &body, check_built)
            || ctx.replay_case::<RegFrame, _>("registration-frames", &file, &body, check_reg_frame)
            || ctx.replay_case::<Vec<Vec<u8>>, _>("glue-decode", &file, &body, check_glue)
            || ctx.replay_case::<Vec<KaStep>, _>("built-keepalives", &file, &body, check_conn_keepalives);
        if !done {
            eprintln!("replay {}: unknown part", file.display());
        }
    }
    if ctx.replay.is_some() {
        return "exploration";
    }

    // exhaustive: every byte string of length 0..=2
    let short = (0u32..=65792).map(|i| -> Vec<u8> {
        if i == 0 {
            vec![]
        } else if i <= 256 {
            vec![(i - 1) as u8]
        } else {
            let x = i - 257;
            vec![(x >> 8) as u8, x as u8]
        }
    });
    ctx.enumerate(
        "short-exhaustive",
        "every byte string of length 0..=2 (65793), all decoders vs reference; non-trivial = a typed decoder produced output or a known type sits within 1 byte of a parser guard",
        true,
        short,
        |c, o| check_bytes(c, o),
    );

    // exhaustive: all 65536 type codes x guard lengths x fixed bodies
    let bodies: u8 = ctx.tier.pick(2, 4);
    let typed = (0u32..65536).flat_map(move |ty| {
        GUARDS.iter().filter(|g| **g >= 2).flat_map(move |g| {
            (0..bodies).map(move |body| TypedCase { ty: ty as u16, len: *g as u16, body })
        })
    });
    ctx.enumerate(
        "types-x-guards",
        "all 65536 type codes x every guard length x fixed bodies, all decoders vs reference",
        true,
        typed,
        |c, o| check_bytes(&typed_bytes(c), o),
    );

    ctx.explore(
        "bytes",
        "generated byte strings 0..=1500: arbitrary, typed frames at guard lengths, structured NAK loss lists (end<start, end=MAX, >1000 expansion, truncated range), mutated keepalives; non-trivial as above; distinct by hash of the bytes",
        ctx.tier.pick(60_000, 3_000_000),
        bytes_strategy,
        |_| |c: &Vec<u8>, o: &mut Obs| check_bytes(c, o),
    );
    ctx.explore(
        "builders",
        "every builder with generated arguments decodes (reference decoder and own decoder) to its arguments with exact lengths 258/258/10/38/4+4n",
        ctx.tier.pick(20_000, 400_000),
        built_strategy,
        |_| check_built,
    );
    // exhaustive: registration frames of every reply type and every length 0..=1500 in every manager state
    let frames = (0u8..3).flat_map(|state| {
        (0u8..2).flat_map(move |pending| (0u8..2).flat_map(move |arrive| (0u8..6).flat_map(move |ty| (0u16..=1500).map(move |len| RegFrame { state, pending, arrive, ty, len }))))
    });
    ctx.enumerate(
        "registration-frames",
        "the registration manager's frame decoder (REG2 id adoption) in every state (fresh / REG1 outstanding / re-registering with an id) x pending link x arrival link x 6 frame types x every length 0..=1500: no panic, id = bytes 2..258 exactly when a >=258-byte REG2 arrives on the pending link, unchanged otherwise; non-trivial = REG2 within 2 bytes of the guard or adopted",
        true,
        frames,
        check_reg_frame,
    );
    ctx.explore(
        "glue-decode",
        "client datagram sequences (runts of 1..3 bytes, short headers, data packets up to 1500 bytes, control packets) through the real handle_srt_packet with the loop's reused receive buffer; the sequence number tracked with each queued datagram must equal the reference decoder's reading of exactly the received bytes; non-trivial = a runt followed a longer datagram",
        ctx.tier.pick(4_000, 60_000),
        glue_strategy,
        |_| check_glue,
    );
    ctx.explore(
        "built-keepalives",
        "sequences of keepalives built by a real connection (SrtlaConnection::keepalive_packet) 1..4000 ms apart, with and without an echo in between, traffic, NAKs and queued packets: every frame is 38 bytes and decodes (reference decoder and own decoder) to the time it was built at and the link's window / in-flight / NAK count / rate; non-trivial = at least two keepalives",
        ctx.tier.pick(20_000, 300_000),
        ka_strategy,
        |_| check_conn_keepalives,
    );
    if ctx.tier == crate::rt::Tier::Thorough {
        crate::fuzzrun::campaign(ctx, "c15_codec", 300);
    }
    "exploration"
}

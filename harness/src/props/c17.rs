//! C17 — weak-link classifier cannot starve a link forever or flap on a blip.
//! Verdict-sequence monitor over generated tick histories on the real
//! `WeakLinkFilter::classify`.

use std::collections::BTreeMap;

use proptest::collection::vec;
use proptest::prelude::*;
use serde::{Deserialize, Serialize};
use serde_json::json;
use srtla_core::connection::SrtlaConnection;
use srtla_core::selection::classifier::{WeakLinkFilter, WeakReason};

use crate::engine::core::{T0, apply_reg3, new_link};
use crate::rt::{CheckResult, Ctx, Obs};

#[derive(Debug, Clone, Hash, Serialize, Deserialize)]
pub struct LinkIn {
    pub present: bool,
    /// 0 = keep, 1 = take the link down (mark_for_recovery), 2 = bring it up (REG3)
    pub conn: u8,
    pub bps: u32,
    pub rtt: Vec<u16>,
}

#[derive(Debug, Clone, Hash, Serialize, Deserialize)]
pub struct Case {
    pub n_links: u8,
    pub ticks: Vec<Vec<LinkIn>>,
}

fn bps() -> impl Strategy<Value = u32> {
    prop_oneof![
        3 => Just(0u32),
        2 => proptest::sample::select(vec![1u32, 24_999, 25_000, 33_333, 49_999, 50_000, 50_001, 99_999, 100_000, 100_001]),
        3 => proptest::sample::select(vec![200_000u32, 1_000_000, 2_000_000, 5_000_000]),
        2 => 0u32..300_000,
        2 => 0u32..20_000_000,
    ]
}

pub fn strategy(max_ticks: usize) -> impl Strategy<Value = Case> {
    (1u8..=4).prop_flat_map(move |n| {
        let link = (
            prop::bool::weighted(0.95),
            prop_oneof![20 => Just(0u8), 1 => Just(1u8), 2 => Just(2u8)],
            bps(),
            vec(prop_oneof![Just(20u16), Just(50), Just(199), Just(200), Just(201), Just(260), Just(600), Just(2500), 1u16..4000], 0..3),
        )
            .prop_map(|(present, conn, bps, rtt)| LinkIn { present, conn, bps, rtt });
        // regimes: a tick is usually a repeat of the previous one with small changes, so that
        // 15-tick streaks and 2-tick delay runs are common
        // a share of the blocks parks one link on (or a hair beside) one of the two share lines: the total is kept,
        // link j gets line + off/10 permille of it, the others share the rest equally
        let park = prop::option::weighted(0.25, (any::<u8>(), any::<bool>(), prop_oneof![Just(0i16), Just(-1), Just(1), Just(5), Just(9), -12i16..25]));
        vec((vec(link, n as usize), 1u8..20, park), 1..(max_ticks / 4).max(2)).prop_map(move |blocks| {
            let mut ticks = Vec::new();
            for (mut ins, rep, park) in blocks {
                if let Some((j, leave, off)) = park
                    && n >= 2
                {
                    let j = j as usize % n as usize;
                    let mut total: u64 = ins.iter().map(|l| l.bps as u64).sum();
                    if total < 200_000 {
                        total = 1_000_000;
                    }
                    let total = total.min(40_000_000);
                    let line_pm10 = (if leave { 7500 } else { 2500 }) / n as i64 + off as i64; // tenths of a permille
                    let mine = (total as i64 * line_pm10 / 10_000).max(0) as u64;
                    let others = total.saturating_sub(mine) / (n as u64 - 1);
                    for (i, l) in ins.iter_mut().enumerate() {
                        l.present = true;
                        l.bps = if i == j { mine as u32 } else { others as u32 };
                    }
                }
                for r in 0..rep {
                    let mut t = ins.clone();
                    if r > 0 {
                        for l in t.iter_mut() {
                            l.conn = 0;
                            if l.rtt.len() > 1 {
                                l.rtt.truncate(1);
                            }
                        }
                    }
                    ticks.push(t);
                    if ticks.len() >= max_ticks {
                        break;
                    }
                }
            }
            Case { n_links: n, ticks }
        })
    })
}

#[derive(Default, Clone)]
struct Mon {
    prev_weak: Option<(bool, WeakReason)>,
    prev_delay_signal: bool,
    share_streak: u32,
    probation_left: u32,
}

pub fn check(case: &Case, obs: &mut Obs) -> CheckResult {
    let n = case.n_links as usize;
    let now = T0;
    let mut links: Vec<SrtlaConnection> = (0..n)
        .map(|i| {
            let mut c = new_link(i, now);
            apply_reg3(&mut c, now);
            c
        })
        .collect();
    let mut f = WeakLinkFilter::new();
    let mut mons: BTreeMap<u64, Mon> = BTreeMap::new();
    let mut probations = 0u32;
    let mut transitions = 0u32;

    for (ti, ins) in case.ticks.iter().enumerate() {
        let t_now = now + 1000 * (ti as u64 + 1);
        let mut present: Vec<usize> = Vec::new();
        for (i, li) in ins.iter().enumerate() {
            let c = &mut links[i];
            match li.conn {
                1 => c.mark_for_recovery(),
                2 => apply_reg3(c, t_now),
                _ => {}
            }
            for r in &li.rtt {
                c.rtt.update_estimate(*r as u64, t_now);
            }
            c.bitrate.current_bitrate_bps = li.bps as f64;
            if li.present {
                present.push(i);
            }
        }
        let mut view: Vec<SrtlaConnection> = Vec::new();
        let mut rest: Vec<SrtlaConnection> = Vec::new();
        for (i, c) in links.drain(..).enumerate() {
            if present.contains(&i) { view.push(c) } else { rest.push(c) }
        }
        let res = f.classify(&view);
        vensure!(res.per_link.len() == view.len(), "verdict-count", "tick {ti}: {} verdicts for {} links", res.per_link.len(), view.len());
        let total: f64 = view.iter().filter(|c| c.connected).map(|c| c.bitrate.current_bitrate_bps.max(0.0)).sum();
        let n_conn = view.iter().filter(|c| c.connected).count() as f64;
        let bypass = total < 100_000.0 || n_conn == 0.0;
        if bypass {
            obs.class("bypass-tick");
            if (99_000.0..100_000.0).contains(&total) {
                obs.class("total-just-under-floor");
            }
        }
        // links not in this tick lose their monitor
        let ids: Vec<u64> = view.iter().map(|c| c.conn_id).collect();
        mons.retain(|k, _| ids.contains(k));
        for c in view.iter() {
            let v = res.per_link.iter().find(|e| e.conn_id == c.conn_id);
            vensure!(v.is_some(), "verdict-missing", "tick {ti}: no verdict for a present link");
            let v = v.unwrap();
            if !c.connected {
                vensure!(!v.weak, "weak-while-disconnected", "tick {ti}: disconnected link reported weak ({:?})", v.reason);
                mons.remove(&c.conn_id);
                continue;
            }
            if bypass {
                vensure!(!v.weak, "weak-under-floor", "tick {ti}: link reported weak ({:?}) with total throughput {}", v.reason, total);
                mons.remove(&c.conn_id);
                continue;
            }
            let m = mons.entry(c.conn_id).or_default();
            let share_pm = c.bitrate.current_bitrate_bps.max(0.0) * 1000.0 / total;
            let rtt_ms = c.get_smooth_rtt_ms() as u32;
            let delay_signal = rtt_ms > res.selected_delay_ms || c.queue_building_suspected();
            let delay_weak = v.weak && matches!(v.reason, WeakReason::HighRtt | WeakReason::QueueBuilding);
            let share_weak = v.weak && matches!(v.reason, WeakReason::LowShare | WeakReason::NoTraffic);
            vensure!(!v.weak || delay_weak || share_weak, "weak-reason", "tick {ti}: weak with reason {:?}", v.reason);
            if delay_weak {
                vensure!(delay_signal, "delay-weak-without-signal", "tick {ti}: weak for {:?} without a delay signal this tick (rtt {} tier {})", v.reason, rtt_ms, res.selected_delay_ms);
                vensure!(m.prev_delay_signal, "delay-weak-on-blip", "tick {ti}: weak for {:?} although the delay signal was absent on the previous tick", v.reason);
                obs.class("delay-weak");
            }
            // probation window
            if m.probation_left > 0 {
                vensure!(!v.weak, "probation-denied", "tick {ti}: link weak ({:?}) inside its three-tick probation", v.reason);
                m.probation_left -= 1;
                m.share_streak = 0;
            } else {
                if share_weak {
                    m.share_streak += 1;
                    vensure!(m.share_streak <= 15, "share-weak-16", "tick {ti}: {} consecutive low-share/no-traffic verdicts", m.share_streak);
                    if m.share_streak == 15 {
                        m.probation_left = 3;
                        m.share_streak = 0;
                        probations += 1;
                    }
                } else {
                    m.share_streak = 0;
                }
                // enter / leave thresholds (real-valued statement, with the code's permille rounding as slack)
                let prev = m.prev_weak;
                let was_weak = prev.is_some_and(|p| p.0);
                if !was_weak && v.weak && v.reason == WeakReason::LowShare {
                    // "below a quarter of fair share", in real numbers (1e-6 permille for the float summation order)
                    vensure!(share_pm < 250.0 / n_conn + 1e-6, "enter-threshold", "tick {ti}: entered low-share weak at share {:.4} permille, n={} (a quarter of fair share is {:.3})", share_pm, n_conn, 250.0 / n_conn);
                    if share_pm > 250.0 / n_conn - 1.5 {
                        obs.class("entered-within-1.5-permille-of-the-line");
                    }
                    transitions += 1;
                }
                if let Some((true, pr)) = prev
                    && matches!(pr, WeakReason::LowShare | WeakReason::NoTraffic)
                    && !v.weak
                {
                    // three quarters of fair share = 750/n permille; the only latitude is the code's whole-permille
                    // threshold (187 for 187.5 with four links, exact for one to three)
                    let leave_at = (750.0 / n_conn).floor();
                    vensure!(share_pm >= leave_at - 1e-6, "leave-threshold", "tick {ti}: left low-share weak at share {:.3} permille, n={} (needs {} = 3/4 of fair share)", share_pm, n_conn, 750.0 / n_conn);
                    transitions += 1;
                }
            }
            m.prev_weak = Some((v.weak, v.reason));
            m.prev_delay_signal = delay_signal;
        }
        links.extend(view);
        links.extend(rest);
        links.sort_by_key(|c| c.conn_id);
    }
    if probations > 0 {
        obs.class("probation-window");
    }
    if transitions > 0 {
        obs.class("enter-or-leave");
    }
    obs.nontrivial = probations > 0 || transitions > 0;
    if obs.nontrivial {
        obs.sample = Some(json!({"links": case.n_links, "n_ticks": case.ticks.len(), "probations": probations, "transitions": transitions,
            "first_tick": format!("{:?}", case.ticks.first())}));
    }
    Ok(())
}

pub fn run(ctx: &Ctx) -> &'static str {
    ctx.assume("per-link bitrate is written to bitrate.current_bitrate_bps and RTT baselines are built by the real RttTracker::update_estimate; connectivity changes go through mark_for_recovery / the REG3 state change");
    ctx.assume("share thresholds are checked in real numbers: entering needs share < 250/n permille (+1e-6 for float summation order), leaving needs share >= floor(750/n) permille (the code's whole-permille threshold: 187 for 187.5 with four links, exact otherwise); the delay tier is the selected_delay_ms the classifier reports");
    ctx.assume("the leave threshold is enforced only on transitions out of a low-share/no-traffic verdict");
    for (file, body) in ctx.replay_files() {
        if !ctx.replay_case::<Case, _>("ticks", &file, &body, check) {
            eprintln!("replay {}: unknown part", file.display());
        }
    }
    if ctx.replay.is_some() {
        return "exploration";
    }
    let mt = ctx.tier.pick(120, 400);
    ctx.explore(
        "ticks",
        "tick-by-tick histories of per-link bitrates (incl. totals at 99999/100000/100001), RTT samples and connectivity over 1..4 real connections with links joining, leaving and idling; regimes repeated 1..20 ticks so 15-tick streaks occur; verdict-sequence monitor; non-trivial = >=1 probation window or >=1 enter/leave transition",
        ctx.tier.pick(150_000, 1_500_000),
        || strategy(mt),
        |_| check,
    );
    // the verdicts as the real housekeeping arm computes, stamps and publishes them (order of classification and
    // teardown within a tick, classifier state across reloads)
    crate::props::e2e::run(ctx, crate::props::e2e::Phase::WeakStats, ctx.tier.pick(1, 2));
    "exploration"
}

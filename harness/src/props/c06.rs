//! C06 — congestion windows stay in range and move in the right direction.
//! Inductive invariant after every op of a generated timed history on one real
//! `SrtlaConnection`; a shell tier (real `handle_housekeeping`) covers the
//! "classic never recovers by time" clause (see `engine::shell`).

use proptest::collection::vec;
use proptest::prelude::*;
use serde::{Deserialize, Serialize};
use serde_json::json;
use srtla_core::connection::SrtlaConnection;

use crate::engine::core::{T0, apply_reg3, delta_ms, new_link};
use crate::rt::{CheckResult, Ctx, Obs};

#[derive(Debug, Clone, Hash, Serialize, Deserialize)]
pub enum Op {
    Advance(u32),
    SetClassic(bool),
    Load(u16),
    EarnedAck,
    /// k earned ACKs (each followed by the global +1) on a loaded link (in-flight topped up to >= 80)
    AckBurst(u16),
    AckWithInFlight(i32),
    GlobalAck,
    Nak,
    NakBurst(u16),
    NakUnknown,
    CumAck,
    RecoveryTick,
    /// k housekeeping-style recovery ticks, each after `dt` ms; `ramp` feeds a rising RTT sample before every tick
    /// (keeps the Kalman velocity above the 2.0 gate so the step is halved)
    RecoveryRun(u16, u8, bool),
    RttSample(u16),
    MarkForRecovery,
    ResetForReconnect,
    Reg3,
}

#[derive(Debug, Clone, Hash, Serialize, Deserialize)]
pub struct Case {
    pub classic: bool,
    pub ops: Vec<Op>,
}

fn in_flight_edge() -> impl Strategy<Value = i32> {
    prop_oneof![
        Just(0),
        Just(1),
        Just(19),
        Just(20),
        Just(21),
        Just(59),
        Just(60),
        Just(61),
        Just(i32::MAX / 1000 - 1),
        Just(i32::MAX / 1000),
        Just(i32::MAX / 1000 + 1),
        Just(i32::MAX - 1),
        Just(i32::MAX),
        0i32..100,
        0i32..=i32::MAX,
    ]
}

fn op() -> impl Strategy<Value = Op> {
    prop_oneof![
        6 => delta_ms().prop_map(Op::Advance),
        1 => any::<bool>().prop_map(Op::SetClassic),
        3 => (1u16..80).prop_map(Op::Load),
        8 => Just(Op::EarnedAck),
        3 => prop_oneof![2 => 5u16..120, 2 => 1300u16..2300, 1 => 100u16..1400].prop_map(Op::AckBurst),
        4 => in_flight_edge().prop_map(Op::AckWithInFlight),
        4 => Just(Op::GlobalAck),
        6 => Just(Op::Nak),
        3 => prop_oneof![1u16..12, 80u16..200, 150u16..700].prop_map(Op::NakBurst),
        1 => Just(Op::NakUnknown),
        2 => Just(Op::CumAck),
        8 => Just(Op::RecoveryTick),
        3 => (prop_oneof![5u16..40, 60u16..260], 0u8..5, any::<bool>()).prop_map(|(k, d, r)| Op::RecoveryRun(k, d, r)),
        3 => prop_oneof![1u16..50, 20u16..2000, Just(10_000u16)].prop_map(Op::RttSample),
        1 => Just(Op::MarkForRecovery),
        1 => Just(Op::ResetForReconnect),
        2 => Just(Op::Reg3),
    ]
}

pub fn strategy(max_ops: usize) -> impl Strategy<Value = Case> {
    (any::<bool>(), vec(op(), 1..max_ops)).prop_map(|(classic, ops)| Case { classic, ops })
}

struct Sim {
    c: SrtlaConnection,
    now: u64,
    classic: bool,
    next_seq: i32,
}

pub fn check(case: &Case, obs: &mut Obs) -> CheckResult {
    let mut s = Sim {
        c: new_link(0, T0),
        now: T0,
        classic: case.classic,
        next_seq: 1000,
    };
    vensure!(s.c.window == 20_000, "initial-window", "new link window {} != 20000", s.c.window);
    apply_reg3(&mut s.c, s.now);
    let mut touched_bound = false;
    let mut fr_toggled = false;
    let mut kinds_recent: Vec<(u64, u8)> = Vec::new();
    let mut dense = false;
    let mut gated_fast_ticks = 0u32;

    for (i, op) in case.ops.iter().enumerate() {
        let w0 = s.c.window;
        let fr0 = s.c.congestion.fast_recovery_mode;
        // kind tag for the non-triviality rule
        let kind: u8 = match op {
            Op::Advance(_) | Op::SetClassic(_) | Op::Load(_) | Op::RttSample(_) | Op::CumAck | Op::NakUnknown => 0,
            Op::EarnedAck | Op::AckWithInFlight(_) | Op::AckBurst(_) => 1,
            Op::GlobalAck => 2,
            Op::Nak | Op::NakBurst(_) => 3,
            Op::RecoveryTick | Op::RecoveryRun(..) => 4,
            Op::MarkForRecovery | Op::ResetForReconnect | Op::Reg3 => 5,
        };
        #[derive(PartialEq)]
        enum Dir {
            Same,
            Up,
            Down,
            Reset20k,
            Any,
        }
        let mut reset_kind_clears_fr = false;
        let dir = match op {
            Op::Advance(d) => {
                s.now += *d as u64;
                Dir::Same
            }
            Op::SetClassic(b) => {
                s.classic = *b;
                Dir::Same
            }
            Op::Load(n) => {
                for _ in 0..*n {
                    s.c.register_packet(s.next_seq, s.now);
                    s.next_seq += 1;
                }
                Dir::Same
            }
            Op::EarnedAck => {
                let seq = s.next_seq;
                s.next_seq += 1;
                s.c.register_packet(seq, s.now);
                let found = s.c.handle_srtla_ack_specific(seq, s.classic, s.now);
                vensure!(found, "ack-not-found", "op {i}: registered seq not found by SRTLA ACK");
                Dir::Up
            }
            Op::AckBurst(k) => {
                while s.c.in_flight_packets < 80 {
                    s.c.register_packet(s.next_seq, s.now);
                    s.next_seq += 1;
                }
                for j in 0..*k {
                    let seq = s.next_seq;
                    s.next_seq += 1;
                    s.c.register_packet(seq, s.now);
                    let b0 = s.c.window;
                    s.c.handle_srtla_ack_specific(seq, s.classic, s.now);
                    let b1 = s.c.window;
                    vensure!((1000..=60_000).contains(&b1) && b1 >= b0, "ack-step", "op {i} ack {j} of burst: earned ACK moved window {} -> {}", b0, b1);
                    s.c.handle_srtla_ack_global();
                    let b2 = s.c.window;
                    vensure!((1000..=60_000).contains(&b2) && b2 >= b1, "ack-step", "op {i} ack {j} of burst: global ACK moved window {} -> {}", b1, b2);
                    if b2 == 60_000 {
                        touched_bound = true;
                    }
                }
                Dir::Up
            }
            Op::AckWithInFlight(x) => {
                let label = s.c.label.clone();
                if s.classic {
                    s.c.congestion.handle_srtla_ack_specific_classic(&mut s.c.window, *x, 7, &label);
                } else {
                    s.c.congestion.handle_srtla_ack_enhanced(&mut s.c.window, *x, &label, s.now);
                }
                Dir::Up
            }
            Op::GlobalAck => {
                s.c.handle_srtla_ack_global();
                Dir::Up
            }
            Op::Nak => {
                let seq = s.next_seq;
                s.next_seq += 1;
                s.c.register_packet(seq, s.now);
                let found = s.c.handle_nak(seq, s.now);
                vensure!(found, "nak-not-found", "op {i}: registered seq not found by NAK");
                vensure!(s.c.window == (w0 - 100).max(1000), "nak-step", "op {i}: NAK moved window {} -> {} (expected {})", w0, s.c.window, (w0 - 100).max(1000));
                Dir::Down
            }
            Op::NakBurst(k) => {
                for _ in 0..*k {
                    let seq = s.next_seq;
                    s.next_seq += 1;
                    s.c.register_packet(seq, s.now);
                    let before = s.c.window;
                    s.c.handle_nak(seq, s.now);
                    vensure!(s.c.window <= before && s.c.window >= 1000, "nak-step", "op {i}: NAK in burst moved window {} -> {}", before, s.c.window);
                }
                Dir::Down
            }
            Op::NakUnknown => {
                let found = s.c.handle_nak(-5, s.now);
                vensure!(!found, "nak-unknown", "op {i}: NAK for a never-sent seq was charged");
                Dir::Same
            }
            Op::CumAck => {
                s.c.handle_srt_ack(s.next_seq - 1, s.now);
                Dir::Same
            }
            Op::RecoveryTick => {
                // the enhanced-mode recovery entry point; whether housekeeping calls it in
                // classic mode is decided by the shell tier, not here
                s.c.perform_window_recovery(s.now);
                Dir::Up
            }
            Op::RecoveryRun(k, d, ramp) => {
                const DT: &[u64] = &[301, 501, 1001, 2001, 10_001];
                let dt = DT[*d as usize % DT.len()];
                let mut rtt = 40u64;
                for j in 0..*k {
                    s.now += dt;
                    if *ramp {
                        rtt += 6;
                        s.c.rtt.update_estimate(rtt, s.now);
                    }
                    let b0 = s.c.window;
                    let f0 = s.c.congestion.fast_recovery_mode;
                    s.c.perform_window_recovery(s.now);
                    let b1 = s.c.window;
                    let f1 = s.c.congestion.fast_recovery_mode;
                    vensure!((1000..=60_000).contains(&b1) && b1 >= b0, "recovery-step", "op {i} tick {j} of run: recovery moved window {} -> {}", b0, b1);
                    vensure!(!(f0 && !f1) || b1 >= 12_000, "fast-recovery-left", "op {i} tick {j} of run: fast recovery left at window {} (velocity {:.2})", b1, s.c.get_rtt_velocity());
                    vensure!(f0 || !f1, "fast-recovery-entered", "op {i} tick {j} of run: recovery tick entered fast recovery");
                    if f0 != f1 {
                        fr_toggled = true;
                    }
                    if *ramp && s.c.get_rtt_velocity() > 2.0 && f0 {
                        gated_fast_ticks += 1;
                    }
                }
                Dir::Up
            }
            Op::RttSample(ms) => {
                s.c.rtt.update_estimate(*ms as u64, s.now);
                Dir::Same
            }
            Op::MarkForRecovery => {
                s.c.mark_for_recovery();
                Dir::Reset20k
            }
            Op::ResetForReconnect => {
                s.c.reset_for_reconnect(s.now);
                reset_kind_clears_fr = true;
                Dir::Reset20k
            }
            Op::Reg3 => {
                apply_reg3(&mut s.c, s.now);
                reset_kind_clears_fr = true;
                Dir::Any
            }
        };
        let w1 = s.c.window;
        let fr1 = s.c.congestion.fast_recovery_mode;
        vensure!((1000..=60_000).contains(&w1), "window-range", "op {i} {:?}: window {} outside [1000, 60000]", op, w1);
        match dir {
            Dir::Same => vensure!(w1 == w0, "window-moved", "op {i} {:?}: window changed {} -> {} on an op that must not move it", op, w0, w1),
            Dir::Up => vensure!(w1 >= w0, "ack-decreased", "op {i} {:?}: window decreased {} -> {} on an ACK/recovery op", op, w0, w1),
            Dir::Down => vensure!(w1 <= w0, "nak-increased", "op {i} {:?}: window increased {} -> {} on a NAK op", op, w0, w1),
            Dir::Reset20k => vensure!(w1 == 20_000, "reset-window", "op {i} {:?}: window {} != 20000 after teardown", op, w1),
            Dir::Any => vensure!(w1 == w0, "window-moved", "op {i} {:?}: REG3 changed window {} -> {}", op, w0, w1),
        }
        if !fr0 && fr1 {
            let is_nak = matches!(op, Op::Nak | Op::NakBurst(_));
            vensure!(is_nak && w1 <= 2000, "fast-recovery-entered", "op {i} {:?}: fast recovery entered at window {} (nak op: {})", op, w1, is_nak);
            fr_toggled = true;
        }
        if fr0 && !fr1 {
            vensure!(w1 >= 12_000 || reset_kind_clears_fr, "fast-recovery-left", "op {i} {:?}: fast recovery left at window {} without a link reset", op, w1);
            fr_toggled = true;
        }
        if w1 == 1000 || w1 == 60_000 {
            touched_bound = true;
        }
        if kind != 0 {
            kinds_recent.push((s.now, kind));
            kinds_recent.retain(|(t, _)| s.now - *t <= 1000);
            let mut ks: Vec<u8> = kinds_recent.iter().map(|x| x.1).collect();
            ks.sort();
            ks.dedup();
            if ks.len() >= 3 {
                dense = true;
            }
        }
    }
    if touched_bound {
        obs.class("touched-bound");
    }
    if fr_toggled {
        obs.class("fast-recovery-toggled");
    }
    if dense {
        obs.class("3-kinds-within-1s");
    }
    if gated_fast_ticks > 0 {
        obs.class("velocity-gated-tick-in-fast-recovery");
    }
    obs.nontrivial = touched_bound || fr_toggled || dense;
    if obs.nontrivial {
        obs.sample = Some(json!({"classic": case.classic, "n_ops": case.ops.len(), "first_ops": format!("{:?}", &case.ops[..case.ops.len().min(12)]), "final_window": s.c.window}));
    }
    Ok(())
}

pub fn run(ctx: &Ctx) -> &'static str {
    ctx.assume("in-flight arguments anywhere in 0..=i32::MAX are fed to the two congestion ACK functions directly, as the statement quantifies");
    ctx.assume("REG3 (clear_pre_registration_state) counts as a link reset for leaving fast recovery; it does not have to restore 20000");
    for (file, body) in ctx.replay_files() {
        let done = ctx.replay_case::<Case, _>("history", &file, &body, check)
            || crate::props::c06_shell::replay(ctx, &file, &body);
        if !done {
            eprintln!("replay {}: unknown part", file.display());
        }
    }
    if ctx.replay.is_some() {
        return "exploration";
    }
    let max_ops = ctx.tier.pick(300, 1000);
    ctx.explore(
        "history",
        "timed histories of earned/direct/global ACKs, NAKs and bursts, recovery ticks, RTT samples, resets on one real SrtlaConnection, both modes; invariant after every op; non-trivial = window touched 1000/60000, or fast-recovery toggled, or >=3 op kinds within 1 s of virtual time",
        ctx.tier.pick(60_000, 600_000),
        || strategy(max_ops),
        |_| check,
    );
    crate::props::c06_shell::run(ctx);
    // the mode flag as the real loop hands it to housekeeping, across runtime mode switches
    crate::props::e2e::run(ctx, crate::props::e2e::Phase::ModeTicks, ctx.tier.pick(1, 2));
    "exploration"
}

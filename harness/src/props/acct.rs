//! Shared interpreter for C02 (in-flight accounting) and C05 (NAK attribution).
//!
//! E3-lite: sends go through the real `forward_via_connection` (so in-flight
//! registration happens at flush exactly as in production); ACK / SRTLA-ACK /
//! NAK arrive as real packets through the real `handle_uplink_packet`
//! (parsers + `process_connection_events` + `attribute_nak`); link removal goes
//! through the real `apply_connection_changes`. The oracle is a per-link set
//! model plus an independently written ownership model of the sequence tracker.

use std::collections::{BTreeMap, BTreeSet};
use std::net::IpAddr;

use proptest::collection::vec;
use proptest::prelude::*;
use serde::{Deserialize, Serialize};
use serde_json::json;
use srtla_core::ConfigSnapshot;
use srtla_send::sender::verif_hooks as vh;

use crate::engine::core::small_delta_ms;
use crate::engine::shell::{Shell, link_ip};
use crate::rt::{CheckResult, Obs, idx};

#[derive(Debug, Clone, Hash, Serialize, Deserialize)]
pub enum Op {
    Send { link: u16, off: u32 },
    Burst { link: u16, off: u32, n: u8 },
    Probe { link: u16, off: u32 },
    Flush,
    CumAck { arrival: u16, off: u32 },
    SrtlaAck { arrival: u16, offs: Vec<u32> },
    /// the same SRTLA ACK, but waiting on the uplink channel behind `pad` other datagrams (a backlog longer than one
    /// drain pass of 64) and handled by the real drain_packet_queue
    AckBehind { arrival: u16, offs: Vec<u32>, pad: u8 },
    Nak { arrival: u16, items: Vec<(u32, u8)>, direct: bool },
    Reset { link: u16, kind: u8 },
    Remove { link: u16 },
    Advance(u32),
    /// one reload that drops two links at once
    RemoveTwo { a: u16, b: u16 },
    /// every later send on this link's socket fails (EPIPE): the next flush that has something to send tears the
    /// link down (mark_for_recovery) and its queue and in-flight packets go with it
    Break { link: u16 },
}

#[derive(Debug, Clone, Hash, Serialize, Deserialize)]
pub struct Case {
    pub n_links: u8,
    pub base: u32,
    pub classic: bool,
    /// per link: NAKs charged before the history starts (walks the window towards the floor)
    #[serde(default)]
    pub pre_naks: Vec<u8>,
    pub ops: Vec<Op>,
}

#[derive(Clone, Copy, PartialEq, Eq)]
pub enum Which {
    C02,
    C05,
}

/// The sequence number of an offset: spans never wrap the 31-bit space (the statement excludes that), so bases next
/// to the top of the space saturate at 0x7fffffff - the largest number itself is sent, acknowledged and NAKed often.
fn sq(case: &Case, off: u32) -> u32 {
    case.base.saturating_add(off).min(0x7fff_ffff)
}

fn off() -> impl Strategy<Value = u32> {
    prop_oneof![
        10 => 0u32..40,
        2 => 0u32..200,
        1 => prop_oneof![Just(63u32), Just(64), Just(65), Just(66), Just(128), Just(129)],
        1 => (0u32..40).prop_map(|x| x + 16_384),
        1 => (0u32..40).prop_map(|x| x + 32_768),
        1 => 0u32..70_000,
    ]
}

/// cumulative ACK numbers: mostly low so that packets stay outstanding
fn ack_off() -> impl Strategy<Value = u32> {
    prop_oneof![
        8 => 0u32..16,
        4 => 0u32..48,
        1 => prop_oneof![Just(63u32), Just(64), Just(65), Just(66), Just(128), Just(129)],
        1 => (0u32..40).prop_map(|x| x + 16_384),
        1 => 0u32..70_000,
    ]
}

/// Short histories for the first-of-process part: a unique copy on one link, the same number duplicated onto another
/// (probe copy), both flushed, then the number NAKed twice - with a little generated noise before and between.
pub fn first_links_strategy() -> impl Strategy<Value = Case> {
    (2u8..=3, any::<u16>(), any::<u16>(), 0u32..30, any::<u16>(), any::<u16>(), any::<bool>(), vec(strategy(Which::C05, 6), 0..1), prop_oneof![Just(0u32), Just(1), Just(4_999), Just(5_000)])
        .prop_map(|(n_links, a, b, off, arr1, arr2, direct, noise, gap)| {
            let mut ops = Vec::new();
            if let Some(nz) = noise.first() {
                ops.extend(nz.ops.iter().take(3).cloned());
            }
            ops.push(Op::Send { link: a, off });
            ops.push(Op::Probe { link: b, off });
            ops.push(Op::Flush);
            ops.push(Op::Advance(20));
            ops.push(Op::Nak { arrival: arr1, items: vec![(off, 0)], direct });
            ops.push(Op::Advance(gap));
            ops.push(Op::Nak { arrival: arr2, items: vec![(off, 0)], direct });
            Case { n_links, base: 1000, classic: false, pre_naks: vec![0; 6], ops }
        })
}

fn time_step(which: Which) -> BoxedStrategy<u32> {
    match which {
        Which::C02 => small_delta_ms().boxed(),
        Which::C05 => prop_oneof![
            3 => small_delta_ms(),
            2 => proptest::sample::select(vec![4_998u32, 4_999, 5_000, 5_001, 5_002, 2_500, 2_499, 2_501]),
        ]
        .boxed(),
    }
}

pub fn strategy(which: Which, max_ops: usize) -> impl Strategy<Value = Case> {
    let op = prop_oneof![
        16 => (any::<u16>(), off()).prop_map(|(link, off)| Op::Send { link, off }),
        3 => (any::<u16>(), off()).prop_map(|(link, off)| Op::Probe { link, off }),
        2 => (any::<u16>(), 0u32..60, 10u8..40).prop_map(|(link, off, n)| Op::Burst { link, off, n }),
        7 => Just(Op::Flush),
        3 => (any::<u16>(), ack_off()).prop_map(|(arrival, off)| Op::CumAck { arrival, off }),
        4 => (any::<u16>(), vec(off(), 1..6)).prop_map(|(arrival, offs)| Op::SrtlaAck { arrival, offs }),
        1 => (any::<u16>(), vec(off(), 1..6), prop_oneof![Just(63u8), Just(64), Just(65), 0u8..200]).prop_map(|(arrival, offs, pad)| Op::AckBehind { arrival, offs, pad }),
        if which == Which::C05 { 8 } else { 4 } => (any::<u16>(), vec((off(), prop_oneof![4 => Just(0u8), 1 => 1u8..6]), 1..5), any::<bool>())
            .prop_map(|(arrival, items, direct)| Op::Nak { arrival, items, direct }),
        1 => (any::<u16>(), 0u8..4).prop_map(|(link, kind)| Op::Reset { link, kind }),
        3 => time_step(which).prop_map(Op::Advance),
        1 => any::<u16>().prop_map(|link| Op::Break { link }),
    ];
    // link removal (reload) only in the C05 histories; proptest unions reject zero weights
    let op = if which == Which::C05 {
        prop_oneof![
            51 => op,
            1 => any::<u16>().prop_map(|link| Op::Remove { link }),
            1 => (any::<u16>(), any::<u16>()).prop_map(|(a, b)| Op::RemoveTwo { a, b }),
        ]
        .boxed()
    } else {
        op.boxed()
    };
    let links = if which == Which::C05 { prop_oneof![4 => 1u8..=4, 2 => 5u8..=6].boxed() } else { (1u8..=4).boxed() };
    (
        links,
        prop_oneof![3 => Just(0u32), 3 => Just(1u32 << 30), 3 => 0u32..(0x7fff_ffff - 80_000), 3 => Just(0x7fff_ffff - 80_000), 2 => (0u32..70).prop_map(|k| 0x7fff_ffff - k)],
        any::<bool>(),
        vec(prop_oneof![5 => Just(0u8), 3 => 183u8..196, 1 => 1u8..183], 6),
        vec(op, 1..max_ops),
    )
        .prop_map(|(n_links, base, classic, pre_naks, ops)| Case { n_links, base, classic, pre_naks, ops })
}

fn data_pkt(seq: u32) -> Vec<u8> {
    let mut p = vec![0u8; 24];
    p[0..4].copy_from_slice(&seq.to_be_bytes());
    p[8..12].copy_from_slice(&seq.wrapping_mul(2654435761).to_be_bytes());
    p
}

fn srt_ack_pkt(n: u32) -> Vec<u8> {
    let mut p = vec![0u8; 44];
    p[0] = 0x80;
    p[1] = 0x02;
    p[16..20].copy_from_slice(&n.to_be_bytes());
    p
}

fn srtla_ack_pkt(list: &[u32]) -> Vec<u8> {
    let mut p = vec![0x91, 0x00, 0, 0];
    for s in list {
        p.extend_from_slice(&s.to_be_bytes());
    }
    p
}

fn nak_pkt(items: &[(u32, u8)]) -> Vec<u8> {
    let mut p = vec![0x80, 0x03, 0, 0];
    for (s, extra) in items {
        if *extra == 0 {
            p.extend_from_slice(&s.to_be_bytes());
        } else {
            p.extend_from_slice(&(s | 0x8000_0000).to_be_bytes());
            p.extend_from_slice(&(s + *extra as u32).to_be_bytes());
        }
    }
    p
}

/// Model of one link.
#[derive(Default, Clone)]
struct MLink {
    held: BTreeSet<u32>,
    queued: Vec<u32>,
}

/// Independent model of the sender's "which uplink carried the unique copy"
/// memory: last unique routing per slot (seq mod 16384), 5 s validity.
#[derive(Default)]
pub struct Owners {
    pub slot: BTreeMap<u32, (u32, u64, u64, usize)>, // slot -> (seq, conn_id, t, op index)
    pub purged: BTreeSet<u32>,
}

impl Owners {
    pub fn route(&mut self, seq: u32, conn: u64, t: u64, op: usize) {
        self.slot.insert(seq % 16_384, (seq, conn, t, op));
        self.purged.remove(&seq);
    }
    pub fn routed_at_op(&self, seq: u32) -> Option<usize> {
        match self.slot.get(&(seq % 16_384)) {
            Some((s, _, _, op)) if *s == seq => Some(*op),
            _ => None,
        }
    }
    pub fn owner(&self, seq: u32, now: u64) -> Option<u64> {
        match self.slot.get(&(seq % 16_384)) {
            Some((s, c, t, _)) if *s == seq && now.saturating_sub(*t) <= 5_000 => Some(*c),
            _ => None,
        }
    }
    /// age of the record relative to expiry, for the non-triviality classes
    pub fn age(&self, seq: u32, now: u64) -> Option<u64> {
        match self.slot.get(&(seq % 16_384)) {
            Some((s, _, t, _)) if *s == seq => Some(now.saturating_sub(*t)),
            _ => None,
        }
    }
    pub fn displaced(&self, seq: u32) -> bool {
        matches!(self.slot.get(&(seq % 16_384)), Some((s, _, _, _)) if *s != seq)
    }
    pub fn purge(&mut self, conn: u64) {
        for v in self.slot.values() {
            if v.1 == conn {
                self.purged.insert(v.0);
            }
        }
        self.slot.retain(|_, v| v.1 != conn);
    }
}

pub fn check(case: &Case, obs: &mut Obs, which: Which) -> CheckResult {
    let n = case.n_links as usize;
    let addrs: Vec<u8> = (0..n as u8).collect();
    let mut cfg = ConfigSnapshot::default();
    if case.classic {
        cfg.mode = srtla_core::SchedulingMode::Classic;
    }
    let mut sh = Shell::new(&addrs, cfg);
    sh.establish_all();
    // windows near the floor: real NAKs for sequence numbers far outside the history's span
    for (i, k) in case.pre_naks.iter().enumerate() {
        if i < sh.st.conns.len() && *k > 0 {
            let now = sh.st.now;
            for j in 0..*k as i32 {
                let sq = 0x7fff_0000 - (i as i32) * 1000 - j;
                sh.st.conns[i].register_packet(sq, now);
                sh.st.conns[i].handle_nak(sq, now);
            }
            if sh.st.conns[i].window <= 1500 {
                obs.class("window-near-floor");
            }
        }
    }
    // model keyed by conn_id (stable across removals)
    let mut model: BTreeMap<u64, MLink> = sh.st.conns.iter().map(|c| (c.conn_id, MLink::default())).collect();
    let mut owners = Owners::default();
    let mut high_ack: Option<u32> = None;
    let mut removed_links: BTreeSet<u64> = BTreeSet::new();
    let mut reset_links: BTreeMap<u64, usize> = BTreeMap::new();
    let mut late_sent: BTreeSet<u32> = BTreeSet::new();
    let mut broken: BTreeSet<u64> = BTreeSet::new();

    let mut expanded: Vec<Op> = Vec::new();
    for op in &case.ops {
        if let Op::Burst { link, off, n } = op {
            for k in 0..*n as u32 {
                expanded.push(Op::Send { link: *link, off: off + k });
            }
        } else {
            expanded.push(op.clone());
        }
    }
    for (oi, op) in expanded.iter().enumerate() {
        let nl = sh.st.conns.len();
        match op {
            Op::Advance(d) => sh.advance(*d as u64),
            Op::Burst { .. } => {}
            Op::Send { link, off } | Op::Probe { link, off } => {
                if nl == 0 {
                    continue;
                }
                let li = idx(*link, nl);
                let seq = sq(case, *off);
                let cid = sh.st.conns[li].conn_id;
                let pkt = data_pkt(seq);
                let is_probe = matches!(op, Op::Probe { .. });
                let q_before = sh.st.conns[li].batch_sender.queued_count();
                if high_ack.is_some_and(|a| seq <= a) {
                    obs.class("late-send-below-ack-hwm");
                    late_sent.insert(seq);
                }
                if model.values().any(|m| m.held.contains(&seq) || m.queued.contains(&seq)) {
                    obs.class(if is_probe { "probe-copy" } else { "re-routed-seq" });
                }
                if is_probe {
                    // what send_stall_probes does: queue without a tracker entry
                    let now = sh.st.now;
                    let needs = sh.st.conns[li].queue_data_packet(&pkt, Some(seq), now);
                    model.get_mut(&cid).unwrap().queued.push(seq);
                    if needs {
                        sh.flush_tick();
                        for c in sh.st.conns.iter() {
                            let m = model.get_mut(&c.conn_id).unwrap();
                            if broken.contains(&c.conn_id) {
                                if !m.queued.is_empty() {
                                    // the flush failed: the link was torn down with everything it held
                                    m.queued.clear();
                                    m.held.clear();
                                    reset_links.insert(c.conn_id, oi);
                                    obs.class("flush-failed-link-torn-down");
                                }
                                continue;
                            }
                            if c.batch_sender.queued_count() == 0 {
                                for s in m.queued.drain(..) {
                                    if high_ack.is_some_and(|a| s <= a) {
                                        late_sent.insert(s);
                                    }
                                    m.held.insert(s);
                                }
                            }
                        }
                    }
                } else {
                    let now = sh.st.now;
                    {
                        let Shell { rt, st } = &mut sh;
                        rt.block_on(vh::forward_via_connection(
                            li,
                            &pkt,
                            Some(seq),
                            &mut st.conns,
                            &st.conn_io,
                            &mut st.last_selected,
                            &mut st.seq_tracker,
                            now,
                        ));
                    }
                    if owners.displaced(seq) {
                        obs.class("slot-displacement");
                    }
                    owners.route(seq, cid, now, oi);
                    let m = model.get_mut(&cid).unwrap();
                    m.queued.push(seq);
                    let q_after = sh.st.conns[li].batch_sender.queued_count();
                    if q_after == 0 && q_before + 1 > 0 {
                        // threshold flush happened inside forward_via_connection
                        if broken.contains(&cid) {
                            m.queued.clear();
                            m.held.clear();
                            reset_links.insert(cid, oi);
                            obs.class("flush-failed-link-torn-down");
                        } else {
                            for s in m.queued.drain(..) {
                                if high_ack.is_some_and(|a| s <= a) {
                                    late_sent.insert(s);
                                }
                                m.held.insert(s);
                            }
                            obs.class("threshold-flush");
                        }
                    }
                }
            }
            Op::Flush => {
                sh.flush_tick();
                for c in sh.st.conns.iter() {
                    let m = model.get_mut(&c.conn_id).unwrap();
                    if broken.contains(&c.conn_id) {
                        if !m.queued.is_empty() {
                            m.queued.clear();
                            m.held.clear();
                            reset_links.insert(c.conn_id, oi);
                            obs.class("flush-failed-link-torn-down");
                        }
                        continue;
                    }
                    for s in m.queued.drain(..) {
                        if high_ack.is_some_and(|a| s <= a) {
                            obs.class("late-send-below-ack-hwm");
                            late_sent.insert(s);
                        }
                        m.held.insert(s);
                    }
                }
            }
            Op::CumAck { arrival, off } => {
                if nl == 0 {
                    continue;
                }
                let a = sq(case, *off);
                let ai = idx(*arrival, nl);
                match high_ack {
                    Some(h) if a == h => obs.class("duplicate-ack"),
                    Some(h) if a < h => obs.class("stale-ack"),
                    Some(h) if a > h + 64 => obs.class("ack-jump-gt-64"),
                    _ => {}
                }
                sh.uplink_pkt(ai, &srt_ack_pkt(a));
                for m in model.values_mut() {
                    m.held.retain(|s| *s > a);
                }
                high_ack = Some(high_ack.map_or(a, |h| h.max(a)));
            }
            Op::SrtlaAck { arrival, offs } | Op::AckBehind { arrival, offs, .. } => {
                if nl == 0 {
                    continue;
                }
                let pad = if let Op::AckBehind { pad, .. } = op { Some(*pad) } else { None };
                let ai = idx(*arrival, nl);
                let acid = sh.st.conns[ai].conn_id;
                let list: Vec<u32> = offs.iter().map(|o| sq(case, *o)).collect();
                let before: BTreeMap<u64, BTreeSet<u32>> = model.iter().map(|(k, m)| (*k, m.held.clone())).collect();
                let win_before: Vec<(u64, i32, bool, bool)> = sh.st.conns.iter().map(|c| (c.conn_id, c.window, c.connected, c.last_received.is_some())).collect();
                if let Some(pad) = pad {
                    for _ in 0..pad {
                        sh.enqueue_uplink(ai, &[0x80, 0x06, 0, 0, 0, 0, 0, 0, 0, 0, 0, 0, 0, 0, 0, 0]);
                    }
                    sh.enqueue_uplink(ai, &srtla_ack_pkt(&list));
                    for _ in 0..(pad as usize / 64 + 2) {
                        sh.drain_queue();
                    }
                    let _ = sh.drain_client();
                    obs.class(if pad >= 64 { "ack-behind-a-backlog-longer-than-one-drain-pass" } else { "ack-behind-a-short-backlog" });
                } else {
                    sh.uplink_pkt(ai, &srtla_ack_pkt(&list));
                }
                // per distinct seq: which links lost it
                let mut uniq = list.clone();
                uniq.sort();
                uniq.dedup();
                for x in uniq {
                    let k = list.iter().filter(|y| **y == x).count();
                    let holders: Vec<u64> = before.iter().filter(|(_, h)| h.contains(&x)).map(|(c, _)| *c).collect();
                    let lost: Vec<u64> = sh
                        .st
                        .conns
                        .iter()
                        .filter(|c| before[&c.conn_id].contains(&x) && !c.packet_log.contains_key(&(x as i32)))
                        .map(|c| c.conn_id)
                        .collect();
                    let expect = k.min(holders.len());
                    vensure!(lost.len() == expect, "srtla-ack-retire-count", "op {oi}: SRTLA ACK x{k} for seq {x}: {} links retired it, expected {} (holders {:?})", lost.len(), expect, holders.len());
                    if holders.contains(&acid) {
                        vensure!(lost.contains(&acid), "srtla-ack-arrival-first", "op {oi}: SRTLA ACK for seq {x} arrived on a link that holds it but retired it elsewhere");
                    } else if !holders.is_empty() {
                        obs.class("srtla-ack-non-arrival-holder");
                    }
                    for l in lost {
                        model.get_mut(&l).unwrap().held.remove(&x);
                    }
                }
                // C10-style global +1 is not asserted here; windows only feed get_score below
                let _ = win_before;
            }
            Op::Nak { arrival, items, direct } => {
                if nl == 0 {
                    continue;
                }
                let ai = idx(*arrival, nl);
                let now = sh.st.now;
                let its: Vec<(u32, u8)> = items.iter().map(|(o, e)| (sq(case, *o), (*e as u32).min(0x7fff_ffff - sq(case, *o)) as u8)).collect();
                let mut list: Vec<u32> = Vec::new();
                for (s, e) in &its {
                    for x in *s..=(*s + *e as u32).min(0x7fff_ffff) {
                        list.push(x);
                    }
                }
                if its.iter().any(|(_, e)| *e > 0) {
                    obs.class("nak-range");
                }
                let before_held: BTreeMap<u64, BTreeSet<u32>> = model.iter().map(|(k, m)| (*k, m.held.clone())).collect();
                let snap = |sh: &Shell| -> BTreeMap<u64, (i32, i32, i32)> {
                    sh.st.conns.iter().map(|c| (c.conn_id, (c.total_nak_count(), c.window, c.in_flight_packets))).collect()
                };
                if *direct {
                    // one number at a time through the real attribute_nak: per-number deltas
                    for x in &list {
                        let b = snap(&sh);
                        let holders: Vec<u64> = model.iter().filter(|(_, m)| m.held.contains(x)).map(|(c, _)| *c).collect();
                        let owner = owners.owner(*x, now);
                        let r = vh::attribute_nak(&mut sh.st.conns, &sh.st.seq_tracker, *x, now);
                        let a = snap(&sh);
                        let changed: Vec<u64> = a.iter().filter(|(c, v)| b[*c] != **v).map(|(c, _)| *c).collect();
                        classify_nak(obs, &owners, *x, now, &holders, owner, &removed_links, &reset_links);
                        vensure!(changed.len() <= 1, "nak-multi-charge", "op {oi}: NAK {x} changed {} links", changed.len());
                        if let Some(c) = changed.first() {
                            vensure!(holders.contains(c), "nak-charged-non-holder", "op {oi}: NAK {x} charged a link that did not hold it");
                            let (n0, w0, f0) = b[c];
                            let (n1, w1, f1) = a[c];
                            vensure!(n1 == n0 + 1 && w1 == (w0 - 100).max(1000) && f1 == f0 - 1, "nak-charge-size", "op {oi}: NAK {x} charge was (naks {n0}->{n1}, window {w0}->{w1}, in-flight {f0}->{f1})");
                            if which == Which::C05
                                && let Some(o) = owner
                            {
                                vensure!(*c == o, "nak-charged-non-owner", "op {oi}: NAK {x} charged link {:#x} while the remembered carrier is {:#x}", c, o);
                            }
                            model.get_mut(c).unwrap().held.remove(x);
                            vensure!(r.is_some(), "nak-return", "op {oi}: attribute_nak returned None but a link changed");
                        } else {
                            if holders.is_empty() {
                                obs.class("nak-unknown-seq");
                            }
                            // nobody charged: allowed only if no holder, or the remembered owner does not hold it
                            if !holders.is_empty() {
                                let owner_excuses = owner.is_some_and(|o| !holders.contains(&o));
                                vensure!(owner_excuses, "nak-not-retired", "op {oi}: NAK {x} held by {} link(s) was charged to nobody", holders.len());
                                obs.class("nak-owner-no-longer-holds");
                            }
                        }
                    }
                } else {
                    let b = snap(&sh);
                    sh.uplink_pkt(ai, &nak_pkt(&its));
                    let a = snap(&sh);
                    let mut uniq = list.clone();
                    uniq.sort();
                    uniq.dedup();
                    let mut removed_per_link: BTreeMap<u64, u32> = BTreeMap::new();
                    for x in uniq {
                        let k = list.iter().filter(|y| **y == x).count();
                        let holders: Vec<u64> = before_held.iter().filter(|(_, h)| h.contains(&x)).map(|(c, _)| *c).collect();
                        let owner = owners.owner(x, now);
                        classify_nak(obs, &owners, x, now, &holders, owner, &removed_links, &reset_links);
                        let lost: Vec<u64> = sh
                            .st
                            .conns
                            .iter()
                            .filter(|c| before_held[&c.conn_id].contains(&x) && !c.packet_log.contains_key(&(x as i32)))
                            .map(|c| c.conn_id)
                            .collect();
                        vensure!(lost.len() <= k.min(holders.len()), "nak-multi-charge", "op {oi}: NAK x{k} for seq {x} retired it on {} links", lost.len());
                        if let Some(o) = owner {
                            if which == Which::C05 {
                                vensure!(lost.iter().all(|l| *l == o), "nak-charged-non-owner", "op {oi}: NAK {x} retired on a link other than the remembered carrier");
                            }
                            if holders.contains(&o) {
                                vensure!(lost.contains(&o), "nak-not-retired", "op {oi}: NAK {x}: the remembered carrier holds it but was not charged");
                            }
                        } else if !holders.is_empty() {
                            vensure!(lost.len() == k.min(holders.len()), "nak-not-retired", "op {oi}: NAK x{k} for seq {x} with {} holders retired on {} links", holders.len(), lost.len());
                        }
                        if holders.is_empty() {
                            obs.class("nak-unknown-seq");
                        }
                        if k > 1 {
                            obs.class("nak-duplicate-in-list");
                        }
                        for l in lost {
                            model.get_mut(&l).unwrap().held.remove(&x);
                            *removed_per_link.entry(l).or_default() += 1;
                        }
                    }
                    for (c, (n1, w1, f1)) in &a {
                        let (n0, w0, f0) = b[c];
                        let r = removed_per_link.get(c).copied().unwrap_or(0) as i32;
                        let exp_w = (w0 - 100 * r).max(1000).min(w0);
                        vensure!(*n1 == n0 + r && *f1 == f0 - r && *w1 == exp_w, "nak-charge-size", "op {oi}: link charged {r} NAK(s): naks {n0}->{n1}, window {w0}->{w1} (expected {exp_w}), in-flight {f0}->{f1}");
                    }
                }
            }
            Op::Reset { link, kind } => {
                if nl == 0 {
                    continue;
                }
                let li = idx(*link, nl);
                let cid = sh.st.conns[li].conn_id;
                let m = model.get_mut(&cid).unwrap();
                if !m.held.is_empty() {
                    obs.class("reset-with-outstanding");
                }
                let now = sh.st.now;
                match kind {
                    0 | 3 => sh.st.conns[li].mark_for_recovery(),
                    1 => sh.st.conns[li].reset_for_reconnect(now),
                    _ => {}
                }
                // the link comes back through a real REG3 (kind 3: stays down until a later reset op)
                if *kind != 3 {
                    sh.deliver_reg3(li);
                } else {
                    obs.class("link-left-down");
                }
                let m = model.get_mut(&cid).unwrap();
                m.held.clear();
                m.queued.clear();
                reset_links.insert(cid, oi);
            }
            Op::Break { link } => {
                if nl == 0 {
                    continue;
                }
                let li = idx(*link, nl);
                if sh.break_socket(li) {
                    broken.insert(sh.st.conns[li].conn_id);
                }
            }
            Op::Remove { .. } | Op::RemoveTwo { .. } => {
                let drop_idx: Vec<usize> = match op {
                    Op::Remove { link } if nl > 1 => vec![idx(*link, nl)],
                    Op::RemoveTwo { a, b } if nl > 2 => {
                        let x = idx(*a, nl);
                        let mut y = idx(*b, nl - 1);
                        if y >= x {
                            y += 1;
                        }
                        vec![x, y]
                    }
                    _ => continue,
                };
                let cids: Vec<u64> = drop_idx.iter().map(|i| sh.st.conns[*i].conn_id).collect();
                let keep: Vec<IpAddr> = sh.st.conns.iter().enumerate().filter(|(i, _)| !drop_idx.contains(i)).map(|(_, c)| c.local_ip).collect();
                sh.apply_ips(&keep);
                for cid in cids {
                    vensure!(sh.st.conns.iter().all(|c| c.conn_id != cid), "remove-failed", "op {oi}: link not removed by reload");
                    model.remove(&cid);
                    owners.purge(cid);
                    removed_links.insert(cid);
                }
                obs.class(if drop_idx.len() > 1 { "two-links-removed-at-once" } else { "link-removed" });
                let _ = link_ip(0);
            }
        }
        let _ = sh.drain_wire();
        let _ = sh.drain_client();
        // invariant after every op
        for c in sh.st.conns.iter() {
            let m = &model[&c.conn_id];
            vensure!(c.in_flight_packets >= 0, "in-flight-negative", "op {oi} {:?}: in-flight {} < 0", op, c.in_flight_packets);
            let extra_all_late = c.packet_log.keys().filter(|s| !m.held.contains(&(**s as u32))).all(|s| late_sent.contains(&(*s as u32)));
            vensure!(
                c.in_flight_packets as usize == m.held.len(),
                if matches!(op, Op::CumAck { .. }) && extra_all_late && c.in_flight_packets as usize > m.held.len() { "cum-ack-late-send-leak" } else if matches!(op, Op::CumAck { .. }) { "cum-ack-mismatch" } else { "in-flight-mismatch" },
                "op {oi} {:?}: link {} in-flight {} != model {} (model holds {:?})",
                op,
                c.label,
                c.in_flight_packets,
                m.held.len(),
                m.held.iter().take(6).collect::<Vec<_>>()
            );
            if which == Which::C02 {
                let q = c.batch_sender.queued_count();
                let exp = if c.connected { c.window / (m.held.len() as i32 + q + 1) } else { -1 };
                vensure!(c.get_score() == exp, "score-formula", "op {oi}: score {} != window/(in-flight+queued+1) = {}", c.get_score(), exp);
            }
        }
    }
    let interesting = [
        "late-send-below-ack-hwm",
        "ack-jump-gt-64",
        "duplicate-ack",
        "stale-ack",
        "srtla-ack-non-arrival-holder",
        "nak-range",
        "reset-with-outstanding",
    ];
    let c05_interesting = ["nak-held-by-2", "nak-slot-displaced", "nak-age-near-expiry", "nak-owner-removed-or-reset"];
    obs.nontrivial = match which {
        Which::C02 => obs.classes.iter().any(|c| interesting.contains(&c.as_str())),
        Which::C05 => obs.classes.iter().any(|c| c05_interesting.contains(&c.as_str())),
    };
    if obs.nontrivial {
        obs.sample = Some(json!({"links": case.n_links, "base": case.base, "n_ops": case.ops.len(), "first_ops": format!("{:?}", &case.ops[..case.ops.len().min(10)])}));
    }
    Ok(())
}

#[allow(clippy::too_many_arguments)]
fn classify_nak(
    obs: &mut Obs,
    owners: &Owners,
    x: u32,
    now: u64,
    holders: &[u64],
    owner: Option<u64>,
    _removed: &BTreeSet<u64>,
    reset: &BTreeMap<u64, usize>,
) {
    if holders.len() >= 2 {
        obs.class("nak-held-by-2");
    }
    if owners.displaced(x) && !holders.is_empty() {
        obs.class("nak-slot-displaced");
    }
    if let Some(age) = owners.age(x, now)
        && (4_999..=5_001).contains(&age)
    {
        obs.class("nak-age-near-expiry");
    }
    if let Some(o) = owner
        && let Some(rop) = reset.get(&o)
        && owners.routed_at_op(x).is_some_and(|r| r < *rop)
    {
        obs.class("nak-owner-removed-or-reset");
    }
    if owner.is_none() && owners.purged.contains(&x) {
        obs.class("nak-owner-removed-or-reset");
    }
}

//! Command-line tier (C10, C12, C18): the path a setting takes from the command line into the running sender
//! exists only in the binary (`src/main.rs`). The real binary, built from the working tree by `./check`, is started
//! with flag combinations; `get_status` over its stdin control channel must report exactly what the flags say.
//! No receiver is needed (the sender just keeps trying to register). Skipped when the binary is not available.

use std::io::{BufRead, BufReader, Write};
use std::process::{Command, Stdio};
use std::time::Duration;

use serde_json::{Value, json};

use crate::rt::{Ctx, Violation};

struct Flags {
    classic: bool,
    no_quality: bool,
    no_guard: bool,
    threshold: Option<i32>,
    ceiling: Option<u64>,
    timeout: Option<u64>,
}

fn status_of(bin: &str, f: &Flags, k: usize) -> Result<(Value, Option<Value>), String> {
    let dir = crate::rt::verif_dir().join("harness").join("target");
    let _ = std::fs::create_dir_all(&dir);
    let ips = dir.join(format!("cli-{}-{k}.ips", std::process::id()));
    std::fs::write(&ips, "127.0.0.10\n").map_err(|e| e.to_string())?;
    let port = std::net::UdpSocket::bind("[::]:0").and_then(|s| s.local_addr()).map(|a| a.port()).map_err(|e| e.to_string())?;
    let rx = std::net::UdpSocket::bind("127.0.0.1:0").map_err(|e| e.to_string())?;
    let rx_port = rx.local_addr().map_err(|e| e.to_string())?.port();
    let mut args: Vec<String> = Vec::new();
    if f.classic {
        args.extend(["--mode".into(), "classic".into()]);
    }
    if f.no_quality {
        args.push("--no-quality".into());
    }
    if f.no_guard {
        args.push("--no-stall-deselect".into());
    }
    if let Some(t) = f.threshold {
        args.extend(["--stall-min-in-flight".into(), t.to_string()]);
    }
    if let Some(c) = f.ceiling {
        args.extend(["--stall-ack-stale-ms".into(), c.to_string()]);
    }
    if let Some(t) = f.timeout {
        args.extend(["--conn-timeout-ms".into(), t.to_string()]);
    }
    args.extend([port.to_string(), "127.0.0.1".into(), rx_port.to_string(), ips.to_string_lossy().to_string()]);
    let mut child = Command::new(bin).args(&args).stdin(Stdio::piped()).stdout(Stdio::piped()).stderr(Stdio::null()).spawn().map_err(|e| format!("spawn: {e}"))?;
    let mut stdin = child.stdin.take().ok_or("no stdin")?;
    let stdout = child.stdout.take().ok_or("no stdout")?;
    let (tx, rxc) = std::sync::mpsc::channel::<String>();
    std::thread::spawn(move || {
        for l in BufReader::new(stdout).lines().map_while(Result::ok) {
            if tx.send(l).is_err() {
                break;
            }
        }
    });
    let mut out: Result<Value, String> = Err("no answer to get_status within 8 s".into());
    // the stdin listener may come up a moment after the process: ask a few times
    'ask: for _ in 0..16 {
        let _ = stdin.write_all(b"{\"jsonrpc\":\"2.0\",\"id\":77,\"method\":\"get_status\"}\n");
        let _ = stdin.flush();
        let t0 = std::time::Instant::now();
        while t0.elapsed() < Duration::from_millis(500) {
            if let Ok(l) = rxc.recv_timeout(Duration::from_millis(100))
                && let Ok(v) = serde_json::from_str::<Value>(&l)
                && v["id"] == json!(77)
            {
                out = Ok(v["result"].clone());
                break 'ask;
            }
        }
    }
    // run-time switch: the guard is toggled over the same channel; the next status must show it (and nothing else moved)
    let mut after: Option<Value> = None;
    if let Ok(st) = &out {
        let flip = !st["stall_deselect"].as_bool().unwrap_or(true);
        let _ = stdin.write_all(format!("{{\"jsonrpc\":\"2.0\",\"id\":78,\"method\":\"set_stall_deselect\",\"params\":{{\"enabled\":{flip}}}}}\n{{\"jsonrpc\":\"2.0\",\"id\":79,\"method\":\"get_status\"}}\n").as_bytes());
        let _ = stdin.flush();
        let t0 = std::time::Instant::now();
        while t0.elapsed() < Duration::from_secs(4) {
            if let Ok(l) = rxc.recv_timeout(Duration::from_millis(100))
                && let Ok(v) = serde_json::from_str::<Value>(&l)
                && v["id"] == json!(79)
            {
                after = Some(v["result"].clone());
                break;
            }
        }
    }
    let _ = child.kill();
    let _ = child.wait();
    let _ = std::fs::remove_file(&ips);
    out.map(|o| (o, after))
}

/// Run the tier for property `ctx.id`; a mismatch is a violation of that property.
pub fn run(ctx: &Ctx) {
    if ctx.failed() {
        return;
    }
    let Some(bin) = std::env::var("VERIF_REPO_BIN").ok().filter(|b| std::path::Path::new(b).exists()) else {
        ctx.extra("command_line", json!({"skipped": "the sender binary is not available (./check builds it; VERIF_REPO_BIN)"}));
        return;
    };
    let combos: Vec<Flags> = vec![
        Flags { classic: false, no_quality: false, no_guard: false, threshold: None, ceiling: None, timeout: None },
        Flags { classic: false, no_quality: true, no_guard: false, threshold: None, ceiling: None, timeout: Some(2500) },
        Flags { classic: false, no_quality: false, no_guard: true, threshold: Some(7), ceiling: None, timeout: None },
        Flags { classic: true, no_quality: false, no_guard: true, threshold: None, ceiling: Some(1234), timeout: Some(120_000) },
        Flags { classic: true, no_quality: true, no_guard: false, threshold: Some(64), ceiling: Some(999), timeout: Some(0) },
        Flags { classic: false, no_quality: true, no_guard: true, threshold: None, ceiling: None, timeout: Some(60_000) },
    ];
    let mut asked = 0;
    let mut skipped = Vec::new();
    for (k, f) in combos.iter().enumerate() {
        match status_of(&bin, f, k) {
            Err(e) => skipped.push(format!("combination {k}: {e}")),
            Ok((st, after)) => {
                asked += 1;
                if let Some(a) = &after {
                    let mut moved: Vec<String> = Vec::new();
                    if a["stall_deselect"] == st["stall_deselect"] {
                        moved.push(format!("stall_deselect still {}", a["stall_deselect"]));
                    }
                    for key in ["mode", "quality_enabled", "conn_timeout_ms", "stall_min_in_flight", "stall_ack_stale_ms"] {
                        if a[key] != st[key] {
                            moved.push(format!("{key} changed {} -> {}", st[key], a[key]));
                        }
                    }
                    if !moved.is_empty() {
                        ctx.extra("command_line", json!({"combinations_asked": asked, "skipped": skipped}));
                        ctx.report_violation(
                            "command-line",
                            &Violation { sig: "run-time-guard-switch-not-in-effect".into(), msg: format!("srtla_send (combination {k}): set_stall_deselect {} over stdin, then get_status: {}", !st["stall_deselect"].as_bool().unwrap_or(true), moved.join(", ")) },
                            json!({"combination": k}),
                        );
                        return;
                    }
                }
                let want_timeout = f.timeout.unwrap_or(5000).clamp(1000, 60_000);
                let mut wrong: Vec<String> = Vec::new();
                if st["mode"] != json!(if f.classic { "classic" } else { "enhanced" }) {
                    wrong.push(format!("mode {}", st["mode"]));
                }
                if st["stall_deselect"] != json!(!f.no_guard) {
                    wrong.push(format!("stall_deselect {} (flag --no-stall-deselect {})", st["stall_deselect"], if f.no_guard { "given" } else { "absent" }));
                }
                // quality is reported off in classic mode whatever the flag says
                if !f.classic && st["quality_enabled"] != json!(!f.no_quality) {
                    wrong.push(format!("quality_enabled {} (flag --no-quality {})", st["quality_enabled"], if f.no_quality { "given" } else { "absent" }));
                }
                if st["conn_timeout_ms"] != json!(want_timeout) {
                    wrong.push(format!("conn_timeout_ms {} (asked {:?}, clamp gives {want_timeout})", st["conn_timeout_ms"], f.timeout));
                }
                if let Some(t) = f.threshold
                    && st["stall_min_in_flight"] != json!(t)
                {
                    wrong.push(format!("stall_min_in_flight {} (asked {t})", st["stall_min_in_flight"]));
                }
                if let Some(c) = f.ceiling
                    && st["stall_ack_stale_ms"] != json!(c)
                {
                    wrong.push(format!("stall_ack_stale_ms {} (asked {c})", st["stall_ack_stale_ms"]));
                }
                if !wrong.is_empty() {
                    ctx.extra("command_line", json!({"combinations_asked": asked, "skipped": skipped}));
                    ctx.report_violation(
                        "command-line",
                        &Violation { sig: "command-line-setting-not-in-effect".into(), msg: format!("srtla_send started with mode {}, --no-quality {}, --no-stall-deselect {}: get_status reports {}", if f.classic { "classic" } else { "enhanced" }, f.no_quality, f.no_guard, wrong.join(", ")) },
                        json!({"combination": k}),
                    );
                    return;
                }
            }
        }
    }
    ctx.extra("command_line", json!({"combinations_asked": asked, "skipped": skipped}));
}

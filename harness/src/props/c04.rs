//! C04 — stream data is only ever routed onto eligible uplinks.
use crate::props::decide::{self, Which};
use crate::rt::{Ctx, Obs};

pub fn run(ctx: &Ctx) -> &'static str {
    ctx.assume("eligible := completed registration since its last reset (phase != Registering and connected), heard within the configured timeout, and not stall-gated as computed by the same call");
    ctx.assume("the link that received the unique copy is read off the per-link queues and the wire (payloads are unique); extra copies are allowed only on stall-gated connected links");
    for (file, body) in ctx.replay_files() {
        let done = ctx.replay_case::<decide::Case, _>("decisions", &file, &body, |c, o| decide::check(c, o, Which::C04, ctx));
        let done = done || ctx.replay_case::<crate::props::faultsim::Case, _>("fault-histories", &file, &body, |c, o| crate::props::faultsim::check(c, o, crate::props::faultsim::Which::C04, ctx));
        if !done {
            eprintln!("replay {}: unknown part", file.display());
        }
    }
    if ctx.replay.is_some() {
        return "exploration";
    }
    let mo = ctx.tier.pick(50, 100);
    ctx.explore(
        "decisions",
        "client datagrams (data, retransmit-flagged, control; critical window open or closed) through the real handle_srt_packet on a real shell (1..4 links) after a generated history of real uplink packets, housekeeping, clock steps across the timeout and stall windows, config changes and stamping writes; the link holding the unique copy must be registered, heard within the timeout and not stall-gated; non-trivial = a decision taken while an ineligible link (registering / timed out / stall-gated) was present; override-path decisions counted",
        ctx.tier.pick(30_000, 400_000),
        || decide::strategy(mo),
        |_| |c: &decide::Case, o: &mut Obs| decide::check(c, o, Which::C04, ctx),
    );
    let horizon = ctx.tier.pick(50, 200);
    ctx.explore(
        "fault-histories",
        "the C08 fault simulation (cooperative receiver, generated fault schedules, traffic flowing): the eligibility predicate is evaluated at the moment each unique datagram is queued; non-trivial = a decision taken while a registering / disconnected / stall-gated link was present",
        ctx.tier.pick(250, 8_000),
        || crate::props::faultsim::strategy(horizon),
        |_| |c: &crate::props::faultsim::Case, o: &mut Obs| crate::props::faultsim::check(c, o, crate::props::faultsim::Which::C04, ctx),
    );
    if ctx.tier == crate::rt::Tier::Thorough {
        crate::props::e2e::run(ctx, crate::props::e2e::Phase::RecoveryEligibility, 2);
    }
    "exploration"
}

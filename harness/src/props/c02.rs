//! C02 — per-link in-flight count equals packets sent and not yet retired.
use crate::props::acct::{self, Which};
use crate::rt::Ctx;

pub fn run(ctx: &Ctx) -> &'static str {
    ctx.assume("sequence spans do not wrap the 31-bit space (as the statement says); span <= 70000 + base");
    ctx.assume("an SRTLA ACK / NAK that several links could absorb: the oracle accepts any one holder (arrival link first for SRTLA ACKs), then follows the code's choice");
    ctx.assume("flush timing (batch threshold) is read off the real queue depth, it is not part of this property");
    for (file, body) in ctx.replay_files() {
        if !ctx.replay_case::<acct::Case, _>("history", &file, &body, |c, o| acct::check(c, o, Which::C02))
            && !ctx.replay_case::<crate::props::decide::Case, _>("real-routing", &file, &body, |c, o| crate::props::decide::check(c, o, crate::props::decide::Which::C02, ctx))
        {
            eprintln!("replay {}: unknown part", file.display());
        }
    }
    if ctx.replay.is_some() {
        return "exploration";
    }
    let max_ops = ctx.tier.pick(120, 300);
    ctx.explore(
        "history",
        "histories over 1..4 real links of sends through forward_via_connection (fresh, repeated, below the ACK high-water mark, probe copies), flushes, real SRT ACK / SRTLA ACK / NAK packets through handle_uplink_packet, and resets; per-link set model in lock-step, in-flight and score checked after every op; non-trivial = history contains a late send below the ACK high-water mark, an ACK jump > 64, a duplicate/stale ACK, an SRTLA ACK resolved on a non-arrival link, a NAK range or a reset with outstanding packets",
        ctx.tier.pick(100_000, 1_000_000),
        || acct::strategy(Which::C02, max_ops),
        |_| |c: &acct::Case, o: &mut crate::rt::Obs| acct::check(c, o, Which::C02),
    );
    let mo = ctx.tier.pick(50, 100);
    ctx.explore(
        "real-routing",
        "the decision engine of C03/C04 (real handle_srt_packet with the real send_stall_probes): whenever a datagram was duplicated onto a stall-gated link, both links are flushed and the number must be in the in-flight set of every link it left on (count == logged numbers); non-trivial = such a duplicate",
        ctx.tier.pick(40_000, 400_000),
        || crate::props::decide::strategy(mo),
        |_| |c: &crate::props::decide::Case, o: &mut crate::rt::Obs| crate::props::decide::check(c, o, crate::props::decide::Which::C02, ctx),
    );
    "exploration"
}

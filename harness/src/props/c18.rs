//! C18 — runtime control protocol is total, well-formed and takes effect.
//! Tier A totality + well-formedness on arbitrary lines; tier B outcome vs an
//! independent JSON-RPC reference model; tier C line histories vs a config
//! model; tier D stdin vs socket entry points; tier E concurrent stress.

use std::future::Future;
use std::pin::pin;
use std::task::{Context, Poll, Waker};

use proptest::collection::vec;
use proptest::prelude::*;
use serde::{Deserialize, Serialize};
use serde_json::{Value, json};
use srtla_core::priority::CriticalWindow;
use srtla_send::config::DynamicConfig;
use srtla_send::control::{SubscriptionContext, dispatch, dispatch_async};
use srtla_send::stats::SharedStats;
use srtla_send::subscriptions::SubscriptionHub;

use crate::rt::{CheckResult, Ctx, Obs, Tier};

/// Poll a future that never really suspends (uncontended tokio mutexes only).
pub fn block_on_simple<F: Future>(f: F) -> F::Output {
    let mut f = pin!(f);
    let mut cx = Context::from_waker(Waker::noop());
    for _ in 0..1000 {
        if let Poll::Ready(v) = f.as_mut().poll(&mut cx) {
            return v;
        }
    }
    panic!("future did not complete without a runtime");
}

// ------------------------------------------------------------------ generators

fn ms_frag() -> impl Strategy<Value = String> {
    prop_oneof![
        6 => proptest::sample::select(vec![
            "0", "1", "999", "1000", "1001", "5000", "59999", "60000", "60001", "18446744073709551615", "18446744073709551616", "-1", "-0", "1.5", "5000.0", "1e3", "\"5000\"", "null", "true", "[5000]",
            "{\"ms\":1}", "4294967296", "9223372036854775808"
        ])
        .prop_map(|s| s.to_string()),
        2 => any::<u64>().prop_map(|v| v.to_string()),
        1 => (0u64..70_000).prop_map(|v| v.to_string()),
    ]
}

fn params_frag() -> impl Strategy<Value = Option<String>> {
    prop_oneof![
        2 => Just(None),
        3 => proptest::sample::select(vec![
            "{\"mode\":\"classic\"}", "{\"mode\":\"enhanced\"}", "{\"mode\":\"Classic\"}", "{\"mode\":5}", "{\"mode\":null}", "{\"mode\":\"\"}", "{\"mode\":[\"classic\"]}",
        ]).prop_map(|s| Some(s.to_string())),
        3 => proptest::sample::select(vec![
            "{\"enabled\":true}", "{\"enabled\":false}", "{\"enabled\":\"true\"}", "{\"enabled\":1}", "{\"enabled\":null}", "{\"Enabled\":true}",
        ]).prop_map(|s| Some(s.to_string())),
        4 => ms_frag().prop_map(|m| Some(format!("{{\"ms\":{m}}}"))),
        2 => wild_string().prop_map(|w| Some(format!("{{\"mode\":{w}}}"))),
        1 => wild_string().prop_map(|w| Some(format!("{{\"topic\":{w},\"enabled\":{w}}}"))),
        2 => proptest::sample::select(vec!["{}", "[]", "null", "\"x\"", "5", "[{\"mode\":\"classic\"}]", "{\"mode\":\"classic\",\"enabled\":true,\"ms\":2000,\"extra\":[1,{\"a\":null}]}",
            "{\"topic\":\"stats\"}", "{\"subscription_id\":\"sub-0\"}"]).prop_map(|s| Some(s.to_string())),
        1 => (ms_frag(), any::<bool>()).prop_map(|(m, b)| Some(format!("{{\"enabled\":{b},\"mode\":\"classic\",\"ms\":{m}}}"))),
    ]
}

fn id_frag() -> impl Strategy<Value = Option<String>> {
    prop_oneof![
        3 => Just(None),
        8 => proptest::sample::select(vec![
            "1", "0", "-7", "\"abc\"", "\"\"", "{\"a\":1}", "[1,2]", "18446744073709551615", "18446744073709551616", "1.5", "true", "false", "null", "\"\\u00e9\\n\"", "123456789012345678901234567890", "[]", "{}",
        ]).prop_map(|s| Some(s.to_string())),
        1 => any::<i64>().prop_map(|v| Some(v.to_string())),
        // structured ids with numbers the JSON library reads as floats (found by the libFuzzer target)
        1 => ("[1-9][0-9]{18,32}", prop_oneof![Just(("[", "]")), Just(("{\"k\":", "}")), Just(("[[", ",1]]")), Just(("", ""))]).prop_map(|(d, (l, r))| Some(format!("{l}{d}{r}"))),
        1 => ("-?[0-9]{1,3}\\.[0-9]{1,20}(e-?[0-9]{1,2})?", prop_oneof![Just(("[", "]")), Just(("", ""))]).prop_map(|(d, (l, r))| Some(format!("{l}{d}{r}"))),
    ]
}

fn ver_frag() -> impl Strategy<Value = Option<String>> {
    prop_oneof![
        10 => Just(Some("\"2.0\"".to_string())),
        1 => Just(None),
        3 => proptest::sample::select(vec!["\"1.0\"", "\"\"", "2.0", "null", "\"2.00\"", "\"2\"", "[\"2.0\"]", "2"]).prop_map(|s| Some(s.to_string())),
    ]
}

/// A JSON string literal with arbitrary (also long, multi-byte) content.
fn wild_string() -> impl Strategy<Value = String> {
    prop_oneof![
        2 => "\\PC{0,24}",
        2 => "\\PC{40,140}",
        1 => (0usize..100, 1usize..80).prop_map(|(a, b)| format!("{}{}", "x".repeat(a), "\u{e9}".repeat(b))),
        1 => (0usize..70, 1usize..40).prop_map(|(a, b)| format!("{}{}", "y".repeat(a), "\u{20ac}\u{1f600}".repeat(b))),
    ]
    .prop_map(|s| serde_json::to_string(&s).unwrap())
}

fn method_frag() -> impl Strategy<Value = Option<String>> {
    prop_oneof![
        2 => wild_string().prop_map(Some),
        12 => proptest::sample::select(vec!["set_mode", "set_quality", "set_stall_deselect", "set_conn_timeout", "get_status", "get_stats"]).prop_map(|s| Some(format!("\"{s}\""))),
        2 => proptest::sample::select(vec!["noop", "", "SET_MODE", "set_mode ", "mark_critical", "rpc.discover"]).prop_map(|s| Some(format!("\"{s}\""))),
        1 => proptest::sample::select(vec!["subscribe", "unsubscribe", "get_subscription_count"]).prop_map(|s| Some(format!("\"{s}\""))),
        1 => proptest::sample::select(vec!["5", "null", "[\"set_mode\"]", "{}"]).prop_map(|s| Some(s.to_string())),
        1 => Just(None),
    ]
}

fn request_line() -> impl Strategy<Value = String> {
    (ver_frag(), method_frag(), params_frag(), id_frag(), any::<u8>(), prop_oneof![Just(""), Just(" "), Just("\t"), Just("  \t ")]).prop_map(|(v, m, p, i, order, pad)| {
        let mut fields: Vec<String> = Vec::new();
        if let Some(v) = v {
            fields.push(format!("\"jsonrpc\":{v}"));
        }
        if let Some(m) = m {
            fields.push(format!("\"method\":{m}"));
        }
        if let Some(p) = p {
            fields.push(format!("\"params\":{p}"));
        }
        if let Some(i) = i {
            fields.push(format!("\"id\":{i}"));
        }
        // key order permutation
        let k = fields.len();
        if k > 1 {
            fields.rotate_left(order as usize % k);
            if order & 0x80 != 0 {
                fields.reverse();
            }
        }
        format!("{pad}{{{}}}{pad}", fields.join(if order & 1 == 0 { "," } else { " , " }))
    })
}

/// Requests whose params fit the method (well-typed most of the time).
fn coherent_request() -> impl Strategy<Value = String> {
    let mp = prop_oneof![
        proptest::sample::select(vec!["classic", "enhanced"]).prop_map(|m| ("set_mode", format!("{{\"mode\":\"{m}\"}}"))),
        any::<bool>().prop_map(|b| ("set_quality", format!("{{\"enabled\":{b}}}"))),
        any::<bool>().prop_map(|b| ("set_stall_deselect", format!("{{\"enabled\":{b}}}"))),
        ms_frag().prop_map(|m| ("set_conn_timeout", format!("{{\"ms\":{m}}}"))),
        Just(("get_status", "{}".to_string())),
        Just(("get_stats", "null".to_string())),
        wild_string().prop_map(|w| ("set_mode", format!("{{\"mode\":{w}}}"))),
    ];
    (mp, id_frag(), prop::bool::weighted(0.9)).prop_map(|((m, p), id, v2)| {
        let ver = if v2 { "2.0" } else { "1.0" };
        match id {
            Some(i) => format!("{{\"jsonrpc\":\"{ver}\",\"id\":{i},\"method\":\"{m}\",\"params\":{p}}}"),
            None => format!("{{\"jsonrpc\":\"{ver}\",\"method\":\"{m}\",\"params\":{p}}}"),
        }
    })
}

fn json_value(depth: u32) -> BoxedStrategy<String> {
    let leaf = prop_oneof![
        Just("null".to_string()),
        Just("true".to_string()),
        any::<i64>().prop_map(|v| v.to_string()),
        Just("1e400".to_string()),
        Just("0.1".to_string()),
        "[a-z_\\.]{0,10}".prop_map(|s| format!("\"{s}\"")),
        Just("\"jsonrpc\"".to_string()),
    ];
    if depth == 0 {
        return leaf.boxed();
    }
    prop_oneof![
        3 => leaf,
        1 => vec(json_value(depth - 1), 0..4).prop_map(|v| format!("[{}]", v.join(","))),
        2 => vec((proptest::sample::select(vec!["jsonrpc", "method", "params", "id", "mode", "ms", "x"]), json_value(depth - 1)), 0..5)
            .prop_map(|kv| format!("{{{}}}", kv.into_iter().map(|(k, v)| format!("\"{k}\":{v}")).collect::<Vec<_>>().join(","))),
    ]
    .boxed()
}

pub fn any_line_pub() -> impl Strategy<Value = String> {
    any_line()
}

fn any_line() -> impl Strategy<Value = String> {
    prop_oneof![
        6 => request_line(),
        6 => coherent_request(),
        2 => json_value(3),
        1 => vec(any::<u8>(), 0..80).prop_map(|b| String::from_utf8_lossy(&b).replace(['\n', '\r'], " ")),
        1 => request_line().prop_map(|s| String::from_utf8_lossy(&s.as_bytes()[..s.len() / 2]).to_string()),
        1 => (request_line(), any::<u8>(), any::<u16>()).prop_map(|(s, c, at)| {
            let mut b = s.into_bytes();
            if !b.is_empty() {
                let i = at as usize % b.len();
                b[i] = c;
            }
            String::from_utf8_lossy(&b).replace(['\n', '\r'], " ")
        }),
        1 => Just("".to_string()),
        1 => Just("   ".to_string()),
    ]
}

// --------------------------------------------------------------- reference model

#[derive(Clone, Debug, PartialEq)]
pub struct ModelCfg {
    pub classic: bool,
    pub quality: bool,
    pub stall: bool,
    pub min_in_flight: i64,
    pub stale_ms: u64,
    pub timeout: u64,
}

impl Default for ModelCfg {
    fn default() -> Self {
        ModelCfg { classic: false, quality: true, stall: true, min_in_flight: 32, stale_ms: 3000, timeout: 5000 }
    }
}

#[derive(Debug, Clone, PartialEq)]
pub enum Predicted {
    /// no response, nothing else known
    NoResponse,
    /// exactly one response with this id and this error code
    Error(Value, i64),
    /// exactly one response with this id and a result satisfying the checker
    Result(Value, ResultKind),
    /// statement leaves it open: only totality + well-formedness
    Latitude,
}

#[derive(Debug, Clone, PartialEq)]
pub enum ResultKind {
    Mode(bool),
    Enabled(bool),
    Ms(u64),
    Status,
    Stats,
}

const KNOWN: &[&str] = &["set_mode", "set_quality", "set_stall_deselect", "set_conn_timeout", "get_status", "get_stats"];
const SUBSCRIPTION: &[&str] = &["subscribe", "unsubscribe", "get_subscription_count"];

/// Independent JSON-RPC reference model. Returns the prediction and applies the
/// effect to `cfg`. `is_subscription` reports whether the line names a subscription method.
pub fn predict(line: &str, cfg: &mut ModelCfg) -> (Predicted, bool) {
    let t = line.trim();
    if t.is_empty() {
        return (Predicted::NoResponse, false);
    }
    let v: Value = match serde_json::from_str(t) {
        Ok(v) => v,
        Err(_) => {
            // syntactically valid JSON whose numbers do not fit (1e400) is not "unparsable": left open
            if serde_json::from_str::<serde::de::IgnoredAny>(t).is_ok() {
                cfg.timeout = u64::MAX;
                return (Predicted::Latitude, false);
            }
            return (Predicted::Error(Value::Null, -32700), false);
        }
    };
    let Some(obj) = v.as_object() else { return (Predicted::Latitude, false) };
    // duplicate keys collapse in a Value; the raw text may have had them -> latitude
    let key_count = t.matches("\"jsonrpc\"").count().max(t.matches("\"method\"").count()).max(t.matches("\"id\"").count()).max(t.matches("\"params\"").count());
    if key_count > 1 {
        return (Predicted::Latitude, false);
    }
    if obj.keys().any(|k| !["jsonrpc", "method", "params", "id"].contains(&k.as_str())) {
        // unknown top-level members: serde ignores them; statement silent -> treat as plain request below
    }
    let (Some(ver), Some(method)) = (obj.get("jsonrpc"), obj.get("method")) else { return (Predicted::Latitude, false) };
    let (Some(ver), Some(method)) = (ver.as_str(), method.as_str()) else { return (Predicted::Latitude, false) };
    let is_sub = SUBSCRIPTION.contains(&method);
    let id = obj.get("id").cloned();
    let id_null = matches!(id, Some(Value::Null));
    let notification = id.is_none();
    let params = obj.get("params").cloned().unwrap_or(Value::Null);
    if ver != "2.0" {
        // whether a wrong-version message is applied is not stated: the model follows the code (timeout = u64::MAX marks "resync")
        cfg.timeout = u64::MAX;
        return (if id_null { Predicted::Latitude } else if notification { Predicted::NoResponse } else { Predicted::Error(id.unwrap(), -32600) }, is_sub);
    }
    // outcome of the method, applying effects
    let outcome: Result<ResultKind, i64> = if is_sub {
        return (Predicted::Latitude, true);
    } else if !KNOWN.contains(&method) {
        Err(-32601)
    } else {
        match method {
            "set_mode" => match params.get("mode").and_then(Value::as_str) {
                Some("classic") => {
                    cfg.classic = true;
                    Ok(ResultKind::Mode(true))
                }
                Some("enhanced") => {
                    cfg.classic = false;
                    Ok(ResultKind::Mode(false))
                }
                _ => Err(-32602),
            },
            "set_quality" => match params.get("enabled") {
                Some(Value::Bool(b)) => {
                    cfg.quality = *b;
                    Ok(ResultKind::Enabled(*b))
                }
                _ => Err(-32602),
            },
            "set_stall_deselect" => match params.get("enabled") {
                Some(Value::Bool(b)) => {
                    cfg.stall = *b;
                    Ok(ResultKind::Enabled(*b))
                }
                _ => Err(-32602),
            },
            "set_conn_timeout" => match params.get("ms") {
                Some(Value::Number(n)) if n.is_u64() => {
                    let applied = n.as_u64().unwrap().clamp(1000, 60_000);
                    cfg.timeout = applied;
                    Ok(ResultKind::Ms(applied))
                }
                _ => Err(-32602),
            },
            "get_status" => Ok(ResultKind::Status),
            _ => Ok(ResultKind::Stats),
        }
    };
    if notification {
        return (Predicted::NoResponse, false);
    }
    if id_null {
        return (Predicted::Latitude, false);
    }
    let id = id.unwrap();
    (
        match outcome {
            Ok(k) => Predicted::Result(id, k),
            Err(c) => Predicted::Error(id, c),
        },
        false,
    )
}

// ------------------------------------------------------------------- the checks

/// Ids are compared as JSON values; numbers too large for i64/u64 are read as floats by the
/// JSON library (not exactly round-trippable), so those compare with a 1e-12 relative tolerance.
fn id_eq(a: &Value, b: &Value) -> bool {
    if a == b {
        return true;
    }
    match (a, b) {
        (Value::Number(x), Value::Number(y)) if x.is_f64() || y.is_f64() => match (x.as_f64(), y.as_f64()) {
            (Some(x), Some(y)) => (x - y).abs() <= 1e-12 * x.abs().max(y.abs()),
            _ => false,
        },
        // structured ids: the same tolerance applies to the numbers inside them
        (Value::Array(x), Value::Array(y)) => x.len() == y.len() && x.iter().zip(y.iter()).all(|(p, q)| id_eq(p, q)),
        (Value::Object(x), Value::Object(y)) => x.len() == y.len() && x.iter().all(|(k, p)| y.get(k).is_some_and(|q| id_eq(p, q))),
        _ => false,
    }
}

fn well_formed(resp_json: &str) -> Result<Value, String> {
    let v: Value = serde_json::from_str(resp_json).map_err(|e| format!("response is not JSON: {e}"))?;
    let o = v.as_object().ok_or("response is not an object")?;
    if o.get("jsonrpc") != Some(&json!("2.0")) {
        return Err("response lacks \"jsonrpc\":\"2.0\"".into());
    }
    if !o.contains_key("id") {
        return Err("response lacks an id member".into());
    }
    let has_r = o.contains_key("result");
    let has_e = o.contains_key("error");
    if has_r == has_e {
        return Err(format!("response has result={has_r} and error={has_e}"));
    }
    if has_e {
        let e = o["error"].as_object().ok_or("error is not an object")?;
        if !e.get("code").is_some_and(|c| c.is_i64()) || !e.get("message").is_some_and(|m| m.is_string()) {
            return Err("error lacks an integer code / string message".into());
        }
    }
    if o.keys().any(|k| !["jsonrpc", "id", "result", "error"].contains(&k.as_str())) {
        return Err("response has extra members".into());
    }
    if resp_json.contains('\n') {
        return Err("response spans more than one line".into());
    }
    Ok(v)
}

fn status_matches(res: &Value, m: &ModelCfg) -> bool {
    res.get("mode") == Some(&json!(if m.classic { "classic" } else { "enhanced" }))
        && res.get("quality_enabled") == Some(&json!(m.quality))
        && res.get("stall_deselect") == Some(&json!(m.stall))
        && res.get("stall_min_in_flight") == Some(&json!(m.min_in_flight))
        && res.get("stall_ack_stale_ms") == Some(&json!(m.stale_ms))
        && res.get("conn_timeout_ms") == Some(&json!(m.timeout))
}

fn snapshot_matches(c: &DynamicConfig, m: &ModelCfg) -> bool {
    let s = c.snapshot();
    s.mode.is_classic() == m.classic && s.quality_enabled == m.quality && s.stall_deselect == m.stall && s.stall_min_in_flight as i64 == m.min_in_flight && s.stall_ack_stale_ms == m.stale_ms && s.conn_timeout_ms == m.timeout
}

struct Env {
    cfg: DynamicConfig,
    stats: SharedStats,
    cw: CriticalWindow,
}

impl Env {
    fn new() -> Env {
        Env { cfg: DynamicConfig::new(), stats: SharedStats::new(), cw: CriticalWindow::new() }
    }
}

/// One line against one environment: totality, well-formedness, prediction, effect.
fn check_line(env: &Env, model: &mut ModelCfg, line: &str, i: usize, obs: &mut Obs) -> CheckResult {
    let before = model.clone();
    let (pred, is_sub) = predict(line, model);
    let r = std::panic::catch_unwind(std::panic::AssertUnwindSafe(|| dispatch(&env.cfg, Some(&env.stats), Some(&env.cw), line)));
    let resp = match r {
        Ok(r) => r,
        Err(p) => return crate::rt::viol("dispatch-panic", format!("line {i}: dispatch panicked on {:?}: {}", line, crate::rt::panic_text(&p))),
    };
    let parsed = match &resp {
        Some(r) => match well_formed(&r.to_json()) {
            Ok(v) => Some(v),
            Err(e) => return crate::rt::viol("response-malformed", format!("line {i}: {e}: {} (request {:?})", r.to_json(), line)),
        },
        None => None,
    };
    let code = parsed.as_ref().and_then(|v| v.get("error")).and_then(|e| e.get("code")).and_then(Value::as_i64);
    match &pred {
        Predicted::NoResponse => {
            vensure!(parsed.is_none(), "notification-answered", "line {i}: no response expected for {:?}, got {:?}", line, parsed);
            obs.class(if line.trim().is_empty() { "blank-line" } else { "notification" });
        }
        Predicted::Error(id, c) => {
            vensure!(parsed.is_some(), "request-unanswered", "line {i}: request {:?} got no response", line);
            let v = parsed.as_ref().unwrap();
            vensure!(code == Some(*c), "wrong-error-code", "line {i}: expected error {c} for {:?}, got {}", line, v);
            vensure!(id_eq(&v["id"], id), "id-not-echoed", "line {i}: response id {} != request id {} for {:?}", v["id"], id, line);
            obs.class(match c {
                -32700 => "error-32700",
                -32600 => "error-32600",
                -32601 => "error-32601",
                _ => "error-32602",
            });
        }
        Predicted::Result(id, kind) => {
            vensure!(parsed.is_some(), "request-unanswered", "line {i}: request {:?} got no response", line);
            let v = parsed.as_ref().unwrap();
            vensure!(v.get("result").is_some(), "unexpected-error", "line {i}: expected a result for {:?}, got {}", line, v);
            vensure!(id_eq(&v["id"], id), "id-not-echoed", "line {i}: response id {} != request id {} for {:?}", v["id"], id, line);
            let res = &v["result"];
            let ok = match kind {
                ResultKind::Mode(c) => res.get("mode") == Some(&json!(if *c { "classic" } else { "enhanced" })),
                ResultKind::Enabled(b) => res.get("enabled") == Some(&json!(*b)),
                ResultKind::Ms(ms) => res.get("ms") == Some(&json!(*ms)),
                ResultKind::Status => status_matches(res, model),
                ResultKind::Stats => res.is_object(),
            };
            vensure!(ok, if matches!(kind, ResultKind::Ms(_)) { "timeout-echo-wrong" } else if matches!(kind, ResultKind::Status) { "status-stale" } else { "result-wrong" }, "line {i}: result {} does not match {:?} (model {:?}) for {:?}", res, kind, model, line);
            obs.class("result");
        }
        Predicted::Latitude => {
            obs.class(if is_sub { "subscription-method" } else { "latitude-shape" });
            // the code decides; the model follows the real config for the fields it can read
            let s = env.cfg.snapshot();
            model.classic = s.mode.is_classic();
            model.quality = s.quality_enabled;
            model.stall = s.stall_deselect;
            model.timeout = s.conn_timeout_ms;
        }
    }
    if model.timeout == u64::MAX {
        let s = env.cfg.snapshot();
        *model = ModelCfg { classic: s.mode.is_classic(), quality: s.quality_enabled, stall: s.stall_deselect, timeout: s.conn_timeout_ms, ..before.clone() };
    }
    // effect: the configuration snapshot agrees with the model after every line
    vensure!(
        snapshot_matches(&env.cfg, model),
        if *model != before { "set-not-applied" } else { "config-changed-unexpectedly" },
        "line {i}: after {:?} snapshot {:?} != model {:?}",
        line,
        env.cfg.snapshot(),
        model
    );
    let t = env.cfg.snapshot().conn_timeout_ms;
    vensure!((1000..=60_000).contains(&t), "timeout-unclamped", "line {i}: conn timeout {t} outside [1000, 60000]");
    if *model != before {
        obs.class(if matches!(pred, Predicted::NoResponse) { "notification-applied" } else { "set-applied" });
    }
    Ok(())
}

#[derive(Debug, Clone, Hash, Serialize, Deserialize)]
pub struct History {
    pub lines: Vec<String>,
}

pub fn check_history(h: &History, obs: &mut Obs) -> CheckResult {
    let env = Env::new();
    let mut model = ModelCfg::default();
    let mut json_lines = 0;
    for (i, line) in h.lines.iter().enumerate() {
        if serde_json::from_str::<Value>(line.trim()).is_ok() {
            json_lines += 1;
        }
        check_line(&env, &mut model, line, i, obs)?;
        // tier C: a get_status after every line shows the model
        let st = dispatch(&env.cfg, Some(&env.stats), Some(&env.cw), r#"{"jsonrpc":"2.0","id":"probe","method":"get_status"}"#);
        let v: Value = serde_json::from_str(&st.unwrap().to_json()).unwrap();
        vensure!(status_matches(&v["result"], &model), "status-stale", "line {i}: get_status {} does not show the model {:?} after {:?}", v["result"], model, line);
    }
    obs.nontrivial = json_lines > 0;
    if obs.nontrivial && h.lines.len() > 1 {
        obs.sample = Some(json!({"n_lines": h.lines.len(), "first": h.lines.iter().take(3).collect::<Vec<_>>()}));
    }
    Ok(())
}

/// Tier D: stdin and socket entry points answer identically (non-subscription methods).
pub fn check_two_entry_points(h: &History, obs: &mut Obs) -> CheckResult {
    let a = Env::new();
    let b = Env::new();
    let c = Env::new();
    let hub = SubscriptionHub::new();
    let (tx, _rx) = tokio::sync::mpsc::channel::<String>(8);
    let mut owned: Vec<String> = Vec::new();
    let mut compared = 0;
    for (i, line) in h.lines.iter().enumerate() {
        let mut m = ModelCfg::default();
        let (_, is_sub) = predict(line, &mut m);
        if is_sub {
            continue;
        }
        let r1 = dispatch(&a.cfg, Some(&a.stats), Some(&a.cw), line).map(|r| r.to_json());
        let r2 = std::panic::catch_unwind(std::panic::AssertUnwindSafe(|| block_on_simple(dispatch_async(&b.cfg, Some(&b.stats), Some(&b.cw), None, line))));
        let r2 = match r2 {
            Ok(r) => r.map(|r| r.to_json()),
            Err(p) => return crate::rt::viol("dispatch-async-panic", format!("line {i}: dispatch_async panicked on {:?}: {}", line, crate::rt::panic_text(&p))),
        };
        let r3 = {
            let mut sctx = SubscriptionContext { hub: &hub, push_tx: tx.clone(), owned_ids: &mut owned };
            std::panic::catch_unwind(std::panic::AssertUnwindSafe(|| block_on_simple(dispatch_async(&c.cfg, Some(&c.stats), Some(&c.cw), Some(&mut sctx), line))))
        };
        let r3 = match r3 {
            Ok(r) => r.map(|r| r.to_json()),
            Err(p) => return crate::rt::viol("dispatch-async-panic", format!("line {i}: dispatch_async(ctx) panicked on {:?}: {}", line, crate::rt::panic_text(&p))),
        };
        let j = |s: &Option<String>| s.as_ref().map(|s| serde_json::from_str::<Value>(s).unwrap_or(Value::String(s.clone())));
        // get_stats carries a timestamp-free snapshot; compare parsed JSON
        vensure!(j(&r1) == j(&r2), "entry-points-differ", "line {i}: stdin answered {:?}, socket answered {:?} to {:?}", r1, r2, line);
        vensure!(j(&r1) == j(&r3), "entry-points-differ", "line {i}: stdin answered {:?}, socket (with subscription context) answered {:?} to {:?}", r1, r3, line);
        let (sa, sb, sc) = (a.cfg.snapshot(), b.cfg.snapshot(), c.cfg.snapshot());
        let key = |s: &srtla_core::ConfigSnapshot| (s.mode.is_classic(), s.quality_enabled, s.stall_deselect, s.conn_timeout_ms);
        vensure!(key(&sa) == key(&sb) && key(&sa) == key(&sc), "entry-points-differ", "line {i}: configurations diverged after {:?}", line);
        if r1.is_some() {
            compared += 1;
        }
    }
    obs.nontrivial = compared > 0;
    Ok(())
}

/// Tier D over the real Unix control socket (`control_socket::spawn` on a small runtime, no sender needed):
/// framing, one answer per request, nothing for notifications (told apart with a sentinel request, no timer),
/// same answers and same configuration as the stdin dispatcher.
pub struct SocketEnv {
    _rt: tokio::runtime::Runtime,
    path: std::path::PathBuf,
    live: DynamicConfig,
}

impl SocketEnv {
    pub fn new(worker: usize) -> Option<SocketEnv> {
        let rt = tokio::runtime::Builder::new_multi_thread().worker_threads(1).enable_all().build().ok()?;
        let dir = crate::rt::verif_dir().join("harness").join("target");
        let _ = std::fs::create_dir_all(&dir);
        let path = dir.join(format!("c18-{}-{worker}.sock", std::process::id()));
        let live = DynamicConfig::new();
        let (p, c) = (path.to_str()?.to_string(), live.clone());
        rt.spawn(async move {
            let _ = srtla_send::control_socket::spawn(p, c, SharedStats::new(), CriticalWindow::new(), SubscriptionHub::new()).await;
        });
        for _ in 0..500 {
            if std::os::unix::net::UnixStream::connect(&path).is_ok() {
                return Some(SocketEnv { _rt: rt, path, live });
            }
            std::thread::sleep(std::time::Duration::from_millis(10));
        }
        None
    }
}

impl Drop for SocketEnv {
    fn drop(&mut self) {
        let _ = std::fs::remove_file(&self.path);
    }
}

pub fn check_socket(env: &Option<SocketEnv>, h: &History, obs: &mut Obs) -> CheckResult {
    let Some(env) = env else { return Ok(()) };
    let lines: Vec<String> = h.lines.iter().filter(|l| !l.contains(['\n', '\r'])).cloned().collect();
    obs.nontrivial = lines.len() >= 2;
    // every other history runs while another client is connected and idle (a long-lived subscriber, say):
    // concurrent clients are each served
    let _idle = if lines.len() % 2 == 0 {
        obs.class("second-client-connected");
        std::os::unix::net::UnixStream::connect(&env.path).ok()
    } else {
        None
    };
    // a request and a line that gets no reply, in ONE write, then silence: the reply must come without the client
    // having to send anything else
    {
        use std::io::{BufRead, BufReader, Write};
        if let Ok(mut st) = std::os::unix::net::UnixStream::connect(&env.path) {
            let _ = st.set_read_timeout(Some(std::time::Duration::from_secs(5)));
            let tail = if lines.len() % 3 == 0 { "\n" } else { "{\"jsonrpc\":\"2.0\",\"method\":\"get_status\"}\n" };
            let burst = format!("{{\"jsonrpc\":\"2.0\",\"id\":\"burst\",\"method\":\"get_status\"}}\n{tail}");
            if st.write_all(burst.as_bytes()).is_ok() {
                let mut r = BufReader::new(st);
                let mut l = String::new();
                let got = r.read_line(&mut l).is_ok_and(|n| n > 0);
                let ok = got && serde_json::from_str::<serde_json::Value>(&l).is_ok_and(|v| v["id"] == json!("burst") && v.get("result").is_some());
                if !ok {
                    return crate::rt::viol("request-in-a-burst-not-answered", format!("a request followed by a {} in one write got {} within 5 s", if lines.len() % 3 == 0 { "blank line" } else { "notification" }, if got { format!("the line {}", l.trim()) } else { "no reply".to_string() }));
                }
            }
        }
    }
    match crate::props::e2e::phase_control_at(&env.path, &env.live, None, &lines) {
        Err(v) if v.sig == "e2e-harness" => Ok(()),
        r => r,
    }
}

/// A reply that does not fit the socket's send buffer in one go: the request's id is a string of `size` bytes (the
/// reply echoes it), a small request follows in the same write, and the client starts reading only later, so the
/// server meets a full buffer in the middle of the reply. Both replies must still arrive complete, one per line.
#[derive(Debug, Clone, Hash, Serialize, Deserialize)]
pub struct BigReply {
    pub size: u32,
    pub wait_ms: u16,
}

pub fn check_big_reply(env: &Option<SocketEnv>, c: &BigReply, obs: &mut Obs) -> CheckResult {
    use std::io::{BufRead, BufReader, Write};
    let Some(env) = env else { return Ok(()) };
    let Ok(st) = std::os::unix::net::UnixStream::connect(&env.path) else { return Ok(()) };
    let _ = st.set_read_timeout(Some(std::time::Duration::from_secs(20)));
    let _ = st.set_write_timeout(Some(std::time::Duration::from_secs(20)));
    let big: String = (0..c.size).map(|i| (b'a' + (i % 26) as u8) as char).collect();
    let text = format!("{{\"jsonrpc\":\"2.0\",\"id\":\"{big}\",\"method\":\"get_status\"}}\n{{\"jsonrpc\":\"2.0\",\"id\":2,\"method\":\"get_status\"}}\n");
    // the writer runs beside the reader-to-be: with a big request the server may already be answering while the
    // tail is still being written
    let mut wr = st.try_clone().map_err(|e| crate::rt::Violation { sig: "harness".into(), msg: e.to_string() })?;
    let writer = std::thread::spawn(move || wr.write_all(text.as_bytes()).is_ok());
    std::thread::sleep(std::time::Duration::from_millis(c.wait_ms as u64));
    let mut r = BufReader::with_capacity(1 << 16, st);
    let mut l1 = String::new();
    let mut l2 = String::new();
    let g1 = r.read_line(&mut l1).is_ok_and(|n| n > 0);
    let g2 = r.read_line(&mut l2).is_ok_and(|n| n > 0);
    let wrote = writer.join().unwrap_or(false);
    if !wrote {
        obs.class("harness-write-failed");
        return Ok(());
    }
    obs.nontrivial = c.size >= 200_000;
    obs.class(if c.size >= 200_000 { "reply-larger-than-the-socket-buffer" } else { "reply-fits-the-socket-buffer" });
    let v1 = serde_json::from_str::<serde_json::Value>(&l1).ok();
    let ok1 = g1 && v1.as_ref().is_some_and(|v| v["id"].as_str().is_some_and(|s| s.len() == big.len() && s == big) && v.get("result").is_some());
    vensure!(ok1, "large-reply-damaged", "a request whose id is a {}-byte string (client reads {} ms later): the first reply line has {} bytes and {}", c.size, c.wait_ms, l1.len(), if v1.is_some() { "is JSON but does not echo the id with a result" } else { "is not one JSON document" });
    let v2 = serde_json::from_str::<serde_json::Value>(&l2).ok();
    let ok2 = g2 && v2.as_ref().is_some_and(|v| v["id"] == json!(2) && v.get("result").is_some());
    vensure!(ok2, "large-reply-damaged", "the small request behind a {}-byte reply was answered with {:?}", c.size, l2.chars().take(120).collect::<String>());
    Ok(())
}

fn history_strategy(max: usize) -> impl Strategy<Value = History> {
    vec(any_line(), 1..max).prop_map(|lines| History { lines })
}

/// Tier E: concurrent setters and snapshot readers (stress, not schedule enumeration).
fn concurrent_stress(ctx: &Ctx) {
    let cfg = DynamicConfig::new();
    let written: Vec<u64> = vec![1000, 1500, 60_000, 2500, 59_999];
    let bad = std::sync::atomic::AtomicU64::new(0);
    let reads = std::sync::atomic::AtomicU64::new(0);
    std::thread::scope(|s| {
        for t in 0..2 {
            let cfg = cfg.clone();
            let written = written.clone();
            s.spawn(move || {
                for i in 0..20_000usize {
                    let v = written[(i + t) % written.len()];
                    let line = format!(r#"{{"jsonrpc":"2.0","id":{i},"method":"set_conn_timeout","params":{{"ms":{}}}}}"#, if i % 7 == 0 { v + 100_000 } else { v });
                    let _ = dispatch(&cfg, None, None, &line);
                    let _ = dispatch(&cfg, None, None, if i % 2 == 0 { r#"{"jsonrpc":"2.0","method":"set_mode","params":{"mode":"classic"}}"# } else { r#"{"jsonrpc":"2.0","method":"set_mode","params":{"mode":"enhanced"}}"# });
                }
            });
        }
        for _ in 0..2 {
            let cfg = cfg.clone();
            let written = written.clone();
            let bad = &bad;
            let reads = &reads;
            s.spawn(move || {
                for _ in 0..40_000usize {
                    let s = cfg.snapshot();
                    reads.fetch_add(1, std::sync::atomic::Ordering::Relaxed);
                    let ok = s.conn_timeout_ms == 5000 || written.contains(&s.conn_timeout_ms);
                    if !ok || !(1000..=60_000).contains(&s.conn_timeout_ms) {
                        bad.fetch_add(1, std::sync::atomic::Ordering::Relaxed);
                    }
                }
            });
        }
    });
    let _ = dispatch(&cfg, None, None, r#"{"jsonrpc":"2.0","id":1,"method":"set_conn_timeout","params":{"ms":4321}}"#);
    let mut st = PartStatsLite::default();
    st.evaluations = reads.load(std::sync::atomic::Ordering::Relaxed);
    ctx.extra("concurrent_stress", json!({"reader_snapshots": st.evaluations, "invalid_observations": bad.load(std::sync::atomic::Ordering::Relaxed), "final_set_visible": cfg.snapshot().conn_timeout_ms == 4321}));
    if bad.load(std::sync::atomic::Ordering::Relaxed) > 0 || cfg.snapshot().conn_timeout_ms != 4321 {
        ctx.report_violation(
            "concurrent-stress",
            &crate::rt::Violation { sig: "concurrent-config".into(), msg: "a reader observed a timeout nobody wrote / outside the clamp, or the final set was not visible".into() },
            json!({"stress": true}),
        );
    }
}

/// The configuration as it is built at start-up from command-line values (DynamicConfig::from_cli): the timeout is
/// "always clamped to 1000..60000 ms", and what start-up stored is what the first status and snapshot show.
fn startup_values(ctx: &Ctx) {
    if ctx.failed() {
        return;
    }
    let mut n = 0u64;
    let timeouts: Vec<u64> = vec![0, 1, 500, 999, 1000, 1001, 5000, 59_999, 60_000, 60_001, 120_000, u32::MAX as u64, u32::MAX as u64 + 1, (1u64 << 32) + 5000, u64::MAX];
    for (k, t) in timeouts.iter().enumerate() {
        for bits in 0..8u8 {
            let (classic, no_quality, no_guard) = (bits & 1 == 1, bits & 2 == 2, bits & 4 == 4);
            let mode = if classic { srtla_core::SchedulingMode::Classic } else { srtla_core::SchedulingMode::Enhanced };
            let cfg = DynamicConfig::from_cli(mode, no_quality, no_guard, 32 + k as i32, 3000 + k as u64, *t);
            let snap = cfg.snapshot();
            let want = (*t).clamp(1000, 60_000);
            n += 1;
            let status = dispatch(&cfg, None, None, r#"{"jsonrpc":"2.0","id":1,"method":"get_status"}"#).map(|r| r.to_json()).unwrap_or_default();
            let bad = if snap.conn_timeout_ms != want {
                Some(format!("start-up timeout {t} ms is held as {} ms (clamp gives {want})", snap.conn_timeout_ms))
            } else if !status.contains(&want.to_string()) {
                Some(format!("start-up timeout {t} ms: get_status answers {status}"))
            } else if snap.mode.is_classic() != classic || snap.stall_deselect == no_guard || snap.stall_min_in_flight != 32 + k as i32 || snap.stall_ack_stale_ms != 3000 + k as u64 {
                Some(format!("start-up values (classic {classic}, no-quality {no_quality}, no-guard {no_guard}, threshold {}, ceiling {}) are held as {:?}", 32 + k, 3000 + k, snap))
            } else if snap.quality_enabled != (!no_quality && !classic) && snap.quality_enabled != !no_quality {
                Some(format!("start-up no-quality {no_quality} (classic {classic}) is held as quality_enabled {}", snap.quality_enabled))
            } else {
                None
            };
            if let Some(msg) = bad {
                ctx.extra("startup_values", json!({"configurations": n}));
                ctx.report_violation("startup-values", &crate::rt::Violation { sig: "startup-value-wrong".into(), msg }, json!({"timeout": t, "flags": bits}));
                return;
            }
        }
    }
    ctx.extra("startup_values", json!({"configurations": n}));
}

/// Tier E2: several clients ask for the SAME value at the same moment (spin-synchronised threads) while the field
/// holds the opposite one. Every request reports success, so the next snapshot / status must show the value.
/// A stress over many rounds (the schedule is the machine's), not an enumeration.
fn agreeing_setters(ctx: &Ctx, rounds: usize) {
    use std::sync::atomic::{AtomicUsize, Ordering};
    if ctx.failed() {
        return;
    }
    let cfg = DynamicConfig::new();
    let generation = AtomicUsize::new(0);
    let done = AtomicUsize::new(0);
    let workers = 4usize;
    let mut lost: Vec<String> = Vec::new();
    // round r: field r % 4 is set to the value want(r) by all workers at once
    let request = |r: usize| -> (String, bool) {
        let want = (r / 4) % 2 == 0;
        let line = match r % 4 {
            0 => format!(r#"{{"jsonrpc":"2.0","id":{r},"method":"set_quality","params":{{"enabled":{want}}}}}"#),
            1 => format!(r#"{{"jsonrpc":"2.0","id":{r},"method":"set_stall_deselect","params":{{"enabled":{want}}}}}"#),
            2 => format!(r#"{{"jsonrpc":"2.0","id":{r},"method":"set_mode","params":{{"mode":"{}"}}}}"#, if want { "classic" } else { "enhanced" }),
            _ => format!(r#"{{"jsonrpc":"2.0","id":{r},"method":"set_conn_timeout","params":{{"ms":{}}}}}"#, if want { 2000 } else { 3000 }),
        };
        (line, want)
    };
    std::thread::scope(|s| {
        for _ in 0..workers {
            let cfg = cfg.clone();
            let (generation, done) = (&generation, &done);
            s.spawn(move || {
                for r in 1..=rounds {
                    while generation.load(Ordering::Acquire) < r {
                        std::hint::spin_loop();
                    }
                    let (line, _) = request(r);
                    let _ = dispatch(&cfg, None, None, &line);
                    done.fetch_add(1, Ordering::AcqRel);
                }
            });
        }
        for r in 1..=rounds {
            let (_, want) = request(r);
            // the field holds the opposite value
            match r % 4 {
                0 => cfg.set_quality_enabled(!want),
                1 => cfg.set_stall_deselect(!want),
                2 => cfg.set_mode(if want { srtla_core::SchedulingMode::Enhanced } else { srtla_core::SchedulingMode::Classic }),
                _ => {
                    cfg.set_conn_timeout_ms(if want { 3000 } else { 2000 });
                }
            }
            done.store(0, Ordering::Release);
            generation.store(r, Ordering::Release);
            while done.load(Ordering::Acquire) < workers {
                std::hint::spin_loop();
            }
            let snap = cfg.snapshot();
            let ok = match r % 4 {
                0 => snap.quality_enabled == want,
                1 => snap.stall_deselect == want,
                2 => snap.mode.is_classic() == want,
                _ => snap.conn_timeout_ms == if want { 2000 } else { 3000 },
            };
            if !ok && lost.len() < 3 {
                lost.push(request(r).0);
            }
        }
    });
    ctx.extra("agreeing_setters", json!({"rounds": rounds, "threads": workers, "lost_sets": lost.len()}));
    if let Some(l) = lost.first() {
        ctx.report_violation(
            "agreeing-setters",
            &crate::rt::Violation { sig: "concurrent-set-lost".into(), msg: format!("{workers} clients sent {l} at the same moment, every request was answered, the next snapshot does not show the value") },
            json!({"stress": true, "line": l}),
        );
    }
}

/// Tier E3: "echoed as applied" under contention. One client sends set_conn_timeout requests and checks every
/// echo against the clamp of what it asked for, while two other clients keep setting a different value.
fn echo_under_contention(ctx: &Ctx, requests: usize) {
    use std::sync::atomic::{AtomicBool, Ordering};
    if ctx.failed() {
        return;
    }
    let cfg = DynamicConfig::new();
    let stop = AtomicBool::new(false);
    let mut wrong: Vec<String> = Vec::new();
    std::thread::scope(|s| {
        for _ in 0..2 {
            let cfg = cfg.clone();
            let stop = &stop;
            s.spawn(move || {
                while !stop.load(Ordering::Relaxed) {
                    cfg.set_conn_timeout_ms(7000);
                }
            });
        }
        for i in 0..requests {
            let ask: u64 = [10u64, 1000, 2500, 59_999, 60_000, 60_001, 3_000_000][i % 7];
            let want = ask.clamp(1000, 60_000);
            let line = format!(r#"{{"jsonrpc":"2.0","id":{i},"method":"set_conn_timeout","params":{{"ms":{ask}}}}}"#);
            if let Some(r) = dispatch(&cfg, None, None, &line) {
                let v: serde_json::Value = serde_json::from_str(&r.to_json()).unwrap_or(serde_json::Value::Null);
                // the applied value is echoed somewhere in the result: any number in it that is a timeout must be ours
                let text = v["result"].to_string();
                if !text.contains(&want.to_string()) && wrong.len() < 3 {
                    wrong.push(format!("asked {ask} (applied {want}), answered {text}"));
                }
            }
        }
        stop.store(true, Ordering::Relaxed);
    });
    ctx.extra("echo_under_contention", json!({"requests": requests, "wrong_echoes": wrong.len()}));
    if let Some(w) = wrong.first() {
        ctx.report_violation(
            "echo-under-contention",
            &crate::rt::Violation { sig: "echo-not-as-applied".into(), msg: format!("set_conn_timeout while two other clients keep setting 7000: {w}") },
            json!({"stress": true, "example": w}),
        );
    }
}

#[derive(Default)]
struct PartStatsLite {
    evaluations: u64,
}

pub fn run(ctx: &Ctx) -> &'static str {
    ctx.assume("refmodel: blank line -> nothing; not JSON -> -32700 id null; well-formed request object (string jsonrpc, string method): wrong version -> -32600 echoing the id (none for a notification); unknown method -> -32601; ill-typed params -> -32602; else result; a request without id is a notification (no response, still applied)");
    ctx.assume("left open on purpose (totality + well-formedness only): JSON that is not a request object, missing / non-string jsonrpc or method, \"id\": null, duplicate top-level keys, subscription methods");
    ctx.assume("'u64' = a JSON number token serde_json reads as an unsigned integer (no fraction / exponent / sign); both the code and the model use serde_json as the JSON parser");
    for (file, body) in ctx.replay_files() {
        let done = ctx.replay_case::<History, _>("histories", &file, &body, check_history)
            || ctx.replay_case::<History, _>("lines", &file, &body, check_history)
            || ctx.replay_case::<History, _>("two-entry-points", &file, &body, check_two_entry_points)
            || {
                let env = SocketEnv::new(99);
                ctx.replay_case::<History, _>("socket", &file, &body, |c, o| check_socket(&env, c, o)) || ctx.replay_case::<BigReply, _>("large-replies", &file, &body, |c, o| check_big_reply(&env, c, o))
            };
        // a stress finding is replayed by running the stress again (the schedule cannot be pinned)
        let part = body["part"].as_str().map(String::from).unwrap_or_default();
        let done = done
            || match part.as_str() {
                "agreeing-setters" => {
                    agreeing_setters(ctx, 400_000);
                    true
                }
                "echo-under-contention" => {
                    echo_under_contention(ctx, 2_000_000);
                    true
                }
                "startup-values" => {
                    crate::props::cli::run(ctx);
    startup_values(ctx);
                    true
                }
                "concurrent-stress" => {
                    concurrent_stress(ctx);
                    true
                }
                _ => false,
            };
        if !done {
            eprintln!("replay {}: unknown part", file.display());
        }
    }
    if ctx.replay.is_some() {
        return "exploration";
    }
    ctx.explore(
        "lines",
        "single lines on a fresh configuration: requests from a grammar (every method x well-typed / ill-typed / missing / extra / extreme params x id absent/int/string/object/array/big/float/bool/null x version 2.0/other/absent/non-string, key order and whitespace varied), JSON of any shape, arbitrary bytes as lossy UTF-8, truncated and byte-mutated requests; totality, well-formedness, predicted outcome, effect on the snapshot; non-trivial = the line parses as JSON",
        ctx.tier.pick(200_000, 2_000_000),
        || any_line().prop_map(|l| History { lines: vec![l] }),
        |_| check_history,
    );
    ctx.explore(
        "histories",
        "sequences of 1..60 such lines against a 6-field configuration model: after every line the snapshot and the next get_status show the model; timeout always within 1000..60000",
        ctx.tier.pick(12_000, 120_000),
        || history_strategy(60),
        |_| check_history,
    );
    ctx.explore(
        "two-entry-points",
        "every generated line that is not a subscription method is dispatched through dispatch(), dispatch_async() without and with a subscription context, each on its own configuration that saw the same history: equal JSON answers and equal configurations",
        ctx.tier.pick(12_000, 120_000),
        || history_strategy(30),
        |_| check_two_entry_points,
    );
    ctx.explore(
        "socket",
        "line histories over the real Unix control socket (control_socket::spawn on its own runtime): every line is followed by a sentinel request so that 'no answer' is told from 'slow answer' without a timer; answers and the resulting configuration must equal those of the stdin dispatcher on a twin configuration; exactly one line per request",
        ctx.tier.pick(1_500, 20_000),
        || history_strategy(12),
        |w| {
            let env = SocketEnv::new(w);
            move |c: &History, o: &mut Obs| check_socket(&env, c, o)
        },
    );
    ctx.explore(
        "large-replies",
        "a request whose id is a 1 kB .. 1.5 MB string (echoed in the reply) followed by a small request in the same write, over the real control socket, the client starting to read 0..400 ms later: both replies arrive complete, one per line; non-trivial = the reply is larger than the socket buffer (>= 200 kB)",
        ctx.tier.pick(48, 600),
        || (prop_oneof![2 => 1_000u32..200_000, 3 => 200_000u32..1_500_000, 1 => Just(1_048_576u32)], prop_oneof![Just(0u16), Just(300), 0u16..400]).prop_map(|(size, wait_ms)| BigReply { size, wait_ms }),
        |w| {
            let env = SocketEnv::new(200 + w);
            move |c: &BigReply, o: &mut Obs| check_big_reply(&env, c, o)
        },
    );
    if ctx.tier == Tier::Thorough {
        concurrent_stress(ctx);
    }
    startup_values(ctx);
    agreeing_setters(ctx, ctx.tier.pick(40_000, 2_000_000));
    echo_under_contention(ctx, ctx.tier.pick(300_000, 5_000_000));
    crate::props::e2e::run(ctx, crate::props::e2e::Phase::Control, ctx.tier.pick(1, 4));
    if ctx.tier == Tier::Thorough {
        crate::fuzzrun::campaign(ctx, "c18_control", 300);
    }
    "exploration"
}

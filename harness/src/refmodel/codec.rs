//! Reference decoder for the SRT / SRTLA wire layouts, written from the layout
//! in property C15 and the SRT / SRTLA header documentation only. It shares no
//! code with `srtla-protocol`.

fn be16(b: &[u8], off: usize) -> u16 {
    ((b[off] as u16) << 8) | b[off + 1] as u16
}
fn be32(b: &[u8], off: usize) -> u32 {
    ((b[off] as u32) << 24) | ((b[off + 1] as u32) << 16) | ((b[off + 2] as u32) << 8) | b[off + 3] as u32
}
fn be64(b: &[u8], off: usize) -> u64 {
    ((be32(b, off) as u64) << 32) | be32(b, off + 4) as u64
}

pub const T_KEEPALIVE: u16 = 0x9000;
pub const T_SRTLA_ACK: u16 = 0x9100;
pub const T_REG1: u16 = 0x9200;
pub const T_REG2: u16 = 0x9201;
pub const T_REG3: u16 = 0x9202;
pub const T_REG_ERR: u16 = 0x9210;
pub const T_REG_NGP: u16 = 0x9211;
pub const T_SRT_ACK: u16 = 0x8002;
pub const T_SRT_NAK: u16 = 0x8003;

pub fn packet_type(b: &[u8]) -> Option<u16> {
    if b.len() >= 2 { Some(be16(b, 0)) } else { None }
}

/// SRT data packets have the top bit of the first word clear; the word is the
/// 31-bit sequence number.
pub fn srt_seq(b: &[u8]) -> Option<u32> {
    if b.len() < 4 {
        return None;
    }
    let w = be32(b, 0);
    if w >> 31 == 0 { Some(w) } else { None }
}

/// Retransmit flag: bit 2 of byte 4 of a data packet. `None` = the statement
/// leaves the answer open (header truncated between 5 and 7 bytes).
pub fn is_retransmit(b: &[u8]) -> Option<bool> {
    if b.len() < 5 {
        return Some(false);
    }
    let flag = (b[0] >> 7) == 0 && (b[4] >> 2) & 1 == 1;
    if b.len() < 8 {
        if flag { None } else { Some(false) }
    } else {
        Some(flag)
    }
}

/// SRT ACK: control type 0x8002, acknowledged number at bytes 16..20.
pub fn srt_ack(b: &[u8]) -> Option<u32> {
    if b.len() >= 20 && packet_type(b) == Some(T_SRT_ACK) {
        Some(be32(b, 16))
    } else {
        None
    }
}

/// SRTLA ACK: 4-byte header followed by big-endian 32-bit numbers.
pub fn srtla_ack(b: &[u8]) -> Vec<u32> {
    if b.len() < 8 || packet_type(b) != Some(T_SRTLA_ACK) {
        return Vec::new();
    }
    let n = (b.len() - 4) / 4;
    (0..n).map(|i| be32(b, 4 + 4 * i)).collect()
}

pub fn keepalive_ts(b: &[u8]) -> Option<u64> {
    if b.len() >= 10 && packet_type(b) == Some(T_KEEPALIVE) {
        Some(be64(b, 2))
    } else {
        None
    }
}

#[derive(Debug, Clone, Copy, PartialEq, Eq)]
pub struct RefConnInfo {
    pub conn_id: u32,
    pub window: i32,
    pub in_flight: i32,
    pub rtt_ms: u32,
    pub nak_count: u32,
    pub rate: u32,
}

pub fn keepalive_info(b: &[u8]) -> Option<RefConnInfo> {
    if b.len() < 38 || packet_type(b) != Some(T_KEEPALIVE) {
        return None;
    }
    if be16(b, 10) != 0xc01f || be16(b, 12) != 1 {
        return None;
    }
    Some(RefConnInfo {
        conn_id: be32(b, 14),
        window: be32(b, 18) as i32,
        in_flight: be32(b, 22) as i32,
        rtt_ms: be32(b, 26),
        nak_count: be32(b, 30),
        rate: be32(b, 34),
    })
}

/// One element of a NAK loss list.
#[derive(Debug, Clone, Copy, PartialEq, Eq)]
pub enum NakItem {
    Single(u32),
    /// inclusive range; `start` has had its marker bit removed
    Range(u32, u32),
}

/// Structural parse of a NAK loss list (no expansion). `well_formed` is false
/// when a range's end word is missing or carries the marker bit itself.
pub struct NakParse {
    pub is_nak: bool,
    pub items: Vec<NakItem>,
    pub well_formed: bool,
    /// some range's end word carries the marker bit itself (the only malformation that leaves the meaning of
    /// the list open; a list that merely ends after a range marker is just truncated)
    pub bad_end: bool,
}

pub fn nak_items(b: &[u8]) -> NakParse {
    let mut out = NakParse {
        is_nak: false,
        items: Vec::new(),
        well_formed: true,
        bad_end: false,
    };
    if b.len() < 8 || packet_type(b) != Some(T_SRT_NAK) {
        return out;
    }
    out.is_nak = true;
    let words: Vec<u32> = (0..(b.len() - 4) / 4).map(|i| be32(b, 4 + 4 * i)).collect();
    let mut i = 0;
    while i < words.len() {
        let w = words[i];
        i += 1;
        if w >> 31 == 1 {
            if i >= words.len() {
                out.well_formed = false;
                break;
            }
            let end = words[i];
            i += 1;
            if end >> 31 == 1 {
                out.well_formed = false;
                out.bad_end = true;
            }
            out.items.push(NakItem::Range(w & 0x7fff_ffff, end));
        } else {
            out.items.push(NakItem::Single(w));
        }
    }
    out
}

/// Full expansion size (saturating) of a loss list.
pub fn nak_full_len(items: &[NakItem]) -> u64 {
    items
        .iter()
        .map(|it| match it {
            NakItem::Single(_) => 1u64,
            NakItem::Range(s, e) => {
                if e >= s {
                    (*e as u64) - (*s as u64) + 1
                } else {
                    0
                }
            }
        })
        .sum()
}

pub fn nak_full(items: &[NakItem], cap: usize) -> Vec<u32> {
    let mut out = Vec::new();
    for it in items {
        match it {
            NakItem::Single(s) => out.push(*s),
            NakItem::Range(s, e) => {
                let mut x = *s as u64;
                while x <= *e as u64 && out.len() < cap {
                    out.push(x as u32);
                    x += 1;
                }
            }
        }
        if out.len() >= cap {
            break;
        }
    }
    out
}

//! Independent re-implementation of the reference (Belabox) srtla_send rules as
//! worded in property C10. No code shared with srtla-core.

use std::collections::BTreeSet;

#[derive(Default, Clone, Debug)]
pub struct RefLink {
    pub window: i32,
    pub held: BTreeSet<u32>,
    /// queued, not yet flushed: Some(seq) for data, None for control
    pub queued: Vec<Option<u32>>,
    pub registered: bool,
    pub connected: bool,
    pub last_rx: Option<u64>,
    pub changed: bool,
}

pub struct RefSender {
    pub links: Vec<RefLink>,
    pub timeout_ms: u64,
}

const WMIN: i32 = 1000;
const WMAX: i32 = 60_000;
const WDEF: i32 = 20_000;

impl RefSender {
    pub fn usable(&self, i: usize, now: u64) -> bool {
        let l = &self.links[i];
        l.registered && l.connected && l.last_rx.is_some_and(|t| now.saturating_sub(t) < self.timeout_ms)
    }

    pub fn score(&self, i: usize) -> i32 {
        let l = &self.links[i];
        l.window / (l.held.len() as i32 + l.queued.len() as i32 + 1)
    }

    pub fn scores(&self, now: u64) -> Vec<Option<i32>> {
        (0..self.links.len()).map(|i| if self.usable(i, now) { Some(self.score(i)) } else { None }).collect()
    }

    /// First maximum over usable links.
    pub fn select(&self, now: u64) -> Option<usize> {
        let mut best: Option<(usize, i32)> = None;
        for i in 0..self.links.len() {
            if !self.usable(i, now) {
                continue;
            }
            let s = self.score(i);
            if best.is_none_or(|b| s > b.1) {
                best = Some((i, s));
            }
        }
        best.map(|b| b.0)
    }

    pub fn distinct_scores(&self, now: u64) -> usize {
        let mut v: Vec<i32> = self.scores(now).into_iter().flatten().collect();
        v.sort();
        v.dedup();
        v.len()
    }

    pub fn is_tie(&self, now: u64) -> bool {
        let v: Vec<i32> = self.scores(now).into_iter().flatten().collect();
        match v.iter().max() {
            Some(m) => v.iter().filter(|x| *x == m).count() >= 2,
            None => false,
        }
    }

    pub fn route(&mut self, i: usize, seq: Option<u32>) {
        self.links[i].queued.push(seq);
    }

    pub fn flush(&mut self, i: usize) {
        let l = &mut self.links[i];
        for s in l.queued.drain(..).flatten() {
            l.held.insert(s);
        }
    }

    pub fn flush_all(&mut self) {
        for i in 0..self.links.len() {
            self.flush(i);
        }
    }

    pub fn inbound(&mut self, i: usize, now: u64) {
        self.links[i].last_rx = Some(now);
    }

    pub fn reg3(&mut self, i: usize, now: u64) {
        let l = &mut self.links[i];
        l.registered = true;
        l.connected = true;
        l.last_rx = Some(now);
        l.held.clear();
        l.queued.clear();
    }

    pub fn reset(&mut self, i: usize) {
        let l = &mut self.links[i];
        if l.window != WDEF {
            l.changed = true;
        }
        l.window = WDEF;
        l.held.clear();
        l.queued.clear();
        l.registered = false;
        l.connected = false;
        l.last_rx = None;
    }

    pub fn all_held(&self) -> Vec<u32> {
        let mut s: BTreeSet<u32> = BTreeSet::new();
        for l in &self.links {
            s.extend(l.held.iter().copied());
        }
        s.into_iter().collect()
    }

    fn bump(l: &mut RefLink, d: i32) {
        let w = (l.window + d).clamp(WMIN, WMAX);
        if w != l.window {
            l.changed = true;
        }
        l.window = w;
    }

    /// One SRTLA-acknowledged number arriving on link `arrival`.
    pub fn srtla_ack(&mut self, arrival: usize, seq: u32) {
        let n = self.links.len();
        let order: Vec<usize> = std::iter::once(arrival).chain((0..n).filter(|i| *i != arrival)).collect();
        for i in order {
            if self.links[i].held.remove(&seq) {
                let l = &mut self.links[i];
                if (l.held.len() as i64) * 1000 > l.window as i64 {
                    Self::bump(l, 29);
                }
                break;
            }
        }
        for l in self.links.iter_mut() {
            if l.connected && l.last_rx.is_some() {
                Self::bump(l, 1);
            }
        }
    }

    pub fn cum_ack(&mut self, ack: u32) {
        for l in self.links.iter_mut() {
            l.held.retain(|s| *s > ack);
        }
    }

    /// One NAKed number; `owner` is the remembered carrier (if any).
    pub fn nak(&mut self, seq: u32, owner: Option<usize>) {
        let target = match owner {
            Some(o) if o < self.links.len() => {
                if self.links[o].held.contains(&seq) { Some(o) } else { None }
            }
            _ => (0..self.links.len()).find(|i| self.links[*i].held.contains(&seq)),
        };
        if let Some(t) = target {
            let l = &mut self.links[t];
            l.held.remove(&seq);
            Self::bump(l, -100);
        }
    }

    pub fn take_window_changed(&mut self) -> bool {
        let mut any = false;
        for l in self.links.iter_mut() {
            any |= l.changed;
            l.changed = false;
        }
        any
    }
}

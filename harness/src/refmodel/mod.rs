pub mod classic;
pub mod codec;

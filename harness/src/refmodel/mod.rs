pub mod codec;

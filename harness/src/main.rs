//! vcheck — property-based checks for irlserver/srtla_send (see /verif/DESIGN.md).
//!
//! usage: vcheck <ID> [--tier quick|thorough] [--replay FILE] [--seed N] [--workers N]

use vcheck::{props, rt};

use std::path::PathBuf;
use std::sync::Mutex;
use std::time::{Duration, Instant};

use rt::{Ctx, Tier};

fn main() {
    let args: Vec<String> = std::env::args().skip(1).collect();
    if args.is_empty() {
        eprintln!("usage: vcheck <ID> [--tier quick|thorough] [--replay FILE] [--seed N]");
        std::process::exit(2);
    }
    if args[0] == "gen-corpus" {
        let dir = args.get(1).cloned().unwrap_or_else(|| "/verif/harness/fuzz/corpus_seed".to_string());
        vcheck::corpus::generate(std::path::Path::new(&dir));
        return;
    }
    // `vcheck fresh-case C05`: one accounting history (JSON on stdin) as the very first thing this process does
    // (the first-of-process part of C05 runs every case in a process of its own)
    if args[0] == "fresh-case" {
        use std::io::Read;
        let mut text = String::new();
        let _ = std::io::stdin().read_to_string(&mut text);
        let case: vcheck::props::acct::Case = match serde_json::from_str(&text) {
            Ok(c) => c,
            Err(e) => {
                println!("FRESH error {e}");
                std::process::exit(2);
            }
        };
        let mut obs = rt::Obs::default();
        let r = std::panic::catch_unwind(std::panic::AssertUnwindSafe(|| vcheck::props::acct::check(&case, &mut obs, vcheck::props::acct::Which::C05)));
        match r {
            Ok(Ok(())) => println!("FRESH ok {}", serde_json::to_string(&obs.classes).unwrap_or_default()),
            Ok(Err(v)) => println!("FRESH viol {}|{}", v.sig, v.msg.replace('\n', " ")),
            Err(_) => println!("FRESH viol panic|the case panicked in a fresh process"),
        }
        return;
    }
    // `vcheck e2e <uplink|relay|keepalive|reload|control|subscription> [n]`: run end-to-end scenarios directly (development aid)
    if args[0] == "e2e" {
        use vcheck::props::e2e::Phase;
        let (phase, id) = match args.get(1).map(String::as_str) {
            Some("uplink") => (Phase::Uplink, "C01"),
            Some("relay") => (Phase::Relay, "C09"),
            Some("keepalive") => (Phase::Keepalive, "C14"),
            Some("reload") => (Phase::Reload, "C19"),
            Some("control") => (Phase::Control, "C18"),
            Some("modeticks") => (Phase::ModeTicks, "C06"),
            Some("handshake") => (Phase::Handshake, "C07"),
            Some("weakstats") => (Phase::WeakStats, "C17"),
            Some("reloadearly") => (Phase::ReloadEarly, "C19"),
            Some("reloadoutage") => (Phase::ReloadOutage, "C19"),
            Some("recovery") => (Phase::Recovery, "C08"),
            Some("recovery4") => (Phase::RecoveryEligibility, "C04"),
            _ => (Phase::Subscription, "C20"),
        };
        let n = args.get(2).and_then(|s| s.parse().ok()).unwrap_or(1);
        let ctx = Ctx {
            id: id.to_string(),
            tier: Tier::Thorough,
            seed: std::env::var("VERIF_SEED").ok().and_then(|s| s.parse().ok()).unwrap_or(1),
            known: rt::load_known(),
            replay: None,
            workers: 4,
            start: Instant::now(),
            state: Mutex::new(Default::default()),
        };
        vcheck::props::e2e::run(&ctx, phase, n);
        println!("{}", serde_json::to_string_pretty(&ctx.state.lock().unwrap().extra).unwrap());
        std::process::exit(if ctx.failed() { 1 } else { 0 });
    }
    let id = args[0].to_uppercase();
    let mut tier = match std::env::var("VERIF_TIER").ok().as_deref() {
        Some("thorough") => Tier::Thorough,
        _ => Tier::Quick,
    };
    let mut seed: u64 = std::env::var("VERIF_SEED")
        .ok()
        .and_then(|s| s.trim().parse::<i128>().ok())
        .map(|v| v as u64)
        .unwrap_or(1);
    let mut replay: Option<PathBuf> = None;
    let mut workers: usize = std::env::var("VERIF_WORKERS")
        .ok()
        .and_then(|s| s.parse().ok())
        .unwrap_or_else(|| {
            std::thread::available_parallelism()
                .map(|n| n.get())
                .unwrap_or(4)
                .min(16)
        });
    let mut i = 1;
    while i < args.len() {
        match args[i].as_str() {
            "--tier" => {
                i += 1;
                tier = match args.get(i).map(String::as_str) {
                    Some("quick") => Tier::Quick,
                    Some("thorough") => Tier::Thorough,
                    other => {
                        eprintln!("bad tier {other:?}");
                        std::process::exit(2);
                    }
                };
            }
            "--replay" => {
                i += 1;
                replay = args.get(i).map(PathBuf::from);
            }
            "--seed" => {
                i += 1;
                seed = args.get(i).and_then(|s| s.parse().ok()).unwrap_or(seed);
            }
            "--workers" => {
                i += 1;
                workers = args.get(i).and_then(|s| s.parse().ok()).unwrap_or(workers);
            }
            other => {
                eprintln!("unknown argument {other}");
                std::process::exit(2);
            }
        }
        i += 1;
    }

    // Quiet panic hook: panics inside the code under test are caught and turned
    // into violations (or shrunk) by the runner; the default hook would spam.
    std::panic::set_hook(Box::new(|info| {
        if std::env::var("VERIF_PANIC_TRACE").is_ok() {
            eprintln!("panic: {info}");
        }
    }));

    // Watchdog: a hang is infrastructure trouble (exit 2), never a violation.
    let limit = Duration::from_secs(match tier {
        Tier::Quick => 15 * 60,
        Tier::Thorough => 4 * 3600,
    });
    std::thread::spawn(move || {
        std::thread::sleep(limit);
        eprintln!("watchdog: time limit exceeded — inconclusive");
        std::process::exit(2);
    });

    let ctx = Ctx {
        id: id.clone(),
        tier,
        seed,
        known: rt::load_known(),
        replay,
        workers,
        start: Instant::now(),
        state: Mutex::new(Default::default()),
    };

    let level = match std::panic::catch_unwind(std::panic::AssertUnwindSafe(|| props::run(&ctx))) {
        Ok(Some(l)) => l,
        Ok(None) => {
            eprintln!("unknown property id {id}");
            std::process::exit(2);
        }
        Err(p) => {
            // a panic of the harness itself (generator, interpreter) is infrastructure trouble, not a violation
            eprintln!("harness panic (infrastructure, exit 2): {}", rt::panic_text(&p));
            std::process::exit(2);
        }
    };
    if ctx.replay.is_none() {
        ctx.write_evidence(level);
    }
    let failed = ctx.failed();
    std::process::exit(if failed { 1 } else { 0 });
}

//! Shared runner: tiers, seeds, proptest driving, sharding, evidence, replay
//! files and known-findings matching (DESIGN.md section 2 and 7).

use std::cell::RefCell;
use std::collections::{BTreeMap, HashSet};
use std::fmt::Debug;
use std::hash::{Hash, Hasher};
use std::path::{Path, PathBuf};
use std::sync::Mutex;
use std::time::Instant;

use proptest::strategy::Strategy;
use proptest::test_runner::{Config, RngAlgorithm, RngSeed, TestCaseError, TestError, TestRunner};
use serde::Serialize;
use serde::de::DeserializeOwned;
use serde_json::{Value, json};

pub const VERIF_DIR: &str = "/verif";

/// Where replays, evidence and the known-findings file live. `/verif`, unless a development bench
/// (a scratch copy of the harness pointed at a scratch worktree) overrides it.
pub fn verif_dir() -> std::path::PathBuf {
    std::env::var_os("VERIF_DIR_OVERRIDE").map(std::path::PathBuf::from).unwrap_or_else(|| std::path::PathBuf::from(VERIF_DIR))
}

#[derive(Clone, Copy, PartialEq, Eq, Debug)]
pub enum Tier {
    Quick,
    Thorough,
}

impl Tier {
    pub fn name(self) -> &'static str {
        match self {
            Tier::Quick => "quick",
            Tier::Thorough => "thorough",
        }
    }
    /// `q` in quick, `t` in thorough.
    pub fn pick<T>(self, q: T, t: T) -> T {
        match self {
            Tier::Quick => q,
            Tier::Thorough => t,
        }
    }
}

/// A property violation. `sig` is a short structural key naming the call site /
/// input class that failed; it is what `known_findings.txt` entries match on.
#[derive(Clone, Debug)]
pub struct Violation {
    pub sig: String,
    pub msg: String,
}

pub type CheckResult = Result<(), Violation>;

pub fn viol<T>(sig: &str, msg: impl Into<String>) -> Result<T, Violation> {
    Err(Violation {
        sig: sig.to_string(),
        msg: msg.into(),
    })
}

#[macro_export]
macro_rules! vensure {
    ($cond:expr, $sig:expr, $($arg:tt)*) => {
        if !($cond) {
            return Err($crate::rt::Violation { sig: $sig.to_string(), msg: format!($($arg)*) });
        }
    };
}

/// Per-case observation filled in by the check.
#[derive(Default)]
pub struct Obs {
    pub nontrivial: bool,
    pub classes: Vec<String>,
    /// Optional abbreviated rendering of the case for the evidence samples.
    pub sample: Option<Value>,
    /// Known findings hit (and tolerated) inside this case, by signature.
    pub known_hits: Vec<String>,
    /// Extra free-form counters.
    pub counters: Vec<(String, u64)>,
}

impl Obs {
    pub fn class(&mut self, c: &str) {
        if !self.classes.iter().any(|x| x == c) {
            self.classes.push(c.to_string());
        }
    }
    pub fn count(&mut self, k: &str, n: u64) {
        if let Some(e) = self.counters.iter_mut().find(|(kk, _)| kk == k) {
            e.1 += n;
        } else {
            self.counters.push((k.to_string(), n));
        }
    }
}

#[derive(Clone, Debug)]
pub struct KnownEntry {
    pub property: String,
    pub sig: String,
    pub text: String,
}

pub struct Ctx {
    pub id: String,
    pub tier: Tier,
    pub seed: u64,
    pub known: Vec<KnownEntry>,
    pub replay: Option<PathBuf>,
    pub workers: usize,
    pub start: Instant,
    pub state: Mutex<RunState>,
}

#[derive(Default)]
pub struct RunState {
    pub parts: Vec<PartStats>,
    pub violations: Vec<(String, PathBuf)>,
    /// (part, signature, case) of every reported violation: they are part of what was explored
    pub violating_cases: Vec<(String, String, Value)>,
    pub known_printed: HashSet<String>,
    pub assumptions: Vec<String>,
    pub extra: BTreeMap<String, Value>,
}

#[derive(Default, Clone)]
pub struct PartStats {
    pub label: String,
    pub rule: String,
    pub evaluations: u64,
    pub nontrivial_hashes: HashSet<u64>,
    pub nontrivial_total: u64,
    pub classes: BTreeMap<String, u64>,
    pub counters: BTreeMap<String, u64>,
    pub samples: Vec<Value>,
    pub excluded_known: BTreeMap<String, u64>,
    pub exhaustive: bool,
}

impl PartStats {
    pub fn new(label: &str, rule: &str) -> Self {
        Self {
            label: label.to_string(),
            rule: rule.to_string(),
            ..Default::default()
        }
    }
    pub fn record(&mut self, hash: u64, obs: Obs, fallback_sample: impl FnOnce() -> Value) {
        self.evaluations += 1;
        for c in &obs.classes {
            *self.classes.entry(c.clone()).or_default() += 1;
        }
        for (k, n) in &obs.counters {
            *self.counters.entry(k.clone()).or_default() += n;
        }
        for k in &obs.known_hits {
            *self.excluded_known.entry(k.clone()).or_default() += 1;
        }
        if obs.nontrivial {
            self.nontrivial_total += 1;
            let new = self.nontrivial_hashes.insert(hash);
            if new && self.samples.len() < 4 {
                self.samples.push(obs.sample.unwrap_or_else(fallback_sample));
            }
        }
    }
    pub fn merge(&mut self, o: PartStats) {
        self.evaluations += o.evaluations;
        self.nontrivial_total += o.nontrivial_total;
        self.nontrivial_hashes.extend(o.nontrivial_hashes);
        for (k, v) in o.classes {
            *self.classes.entry(k).or_default() += v;
        }
        for (k, v) in o.counters {
            *self.counters.entry(k).or_default() += v;
        }
        for (k, v) in o.excluded_known {
            *self.excluded_known.entry(k).or_default() += v;
        }
        for s in o.samples {
            if self.samples.len() < 5 {
                self.samples.push(s);
            }
        }
    }
}

pub fn hash_of<T: Hash>(t: &T) -> u64 {
    let mut h = rustc_hash::FxHasher::default();
    t.hash(&mut h);
    h.finish()
}

pub fn mix_seed(seed: u64, id: &str, label: &str, worker: usize) -> u64 {
    let mut h = rustc_hash::FxHasher::default();
    seed.hash(&mut h);
    id.hash(&mut h);
    label.hash(&mut h);
    worker.hash(&mut h);
    // splitmix finaliser
    let mut z = h.finish().wrapping_add(0x9E3779B97F4A7C15);
    z = (z ^ (z >> 30)).wrapping_mul(0xBF58476D1CE4E5B9);
    z = (z ^ (z >> 27)).wrapping_mul(0x94D049BB133111EB);
    z ^ (z >> 31)
}

fn seed_bytes(s: u64) -> [u8; 32] {
    let mut out = [0u8; 32];
    let mut x = s;
    for chunk in out.chunks_mut(8) {
        x = x.wrapping_mul(0x9E3779B97F4A7C15).wrapping_add(0xD1B54A32D192ED03);
        let mut z = x;
        z = (z ^ (z >> 30)).wrapping_mul(0xBF58476D1CE4E5B9);
        z = (z ^ (z >> 27)).wrapping_mul(0x94D049BB133111EB);
        z ^= z >> 31;
        chunk.copy_from_slice(&z.to_le_bytes());
    }
    out
}

impl Ctx {
    pub fn is_known(&self, sig: &str) -> Option<&KnownEntry> {
        self.known
            .iter()
            .find(|k| k.property == self.id && k.sig == sig)
    }

    pub fn assume(&self, s: &str) {
        let mut st = self.state.lock().unwrap();
        if !st.assumptions.iter().any(|a| a == s) {
            st.assumptions.push(s.to_string());
        }
    }

    pub fn extra(&self, k: &str, v: Value) {
        self.state.lock().unwrap().extra.insert(k.to_string(), v);
    }

    pub fn print_known(&self, sig: &str) {
        let mut st = self.state.lock().unwrap();
        if st.known_printed.insert(sig.to_string()) {
            let text = self
                .is_known(sig)
                .map(|k| k.text.clone())
                .unwrap_or_default();
            println!("KNOWN-FINDING: property={} signature={} {}", self.id, sig, text);
        }
    }

    pub fn add_part(&self, p: PartStats) {
        let mut st = self.state.lock().unwrap();
        if let Some(e) = st.parts.iter_mut().find(|e| e.label == p.label) {
            e.merge(p);
        } else {
            st.parts.push(p);
        }
    }

    pub fn failed(&self) -> bool {
        !self.state.lock().unwrap().violations.is_empty()
    }

    /// Record a violation: write the replay file, print the VIOLATION line.
    pub fn report_violation(&self, label: &str, v: &Violation, case: Value) {
        let dir = crate::rt::verif_dir().join("replays").join(&self.id);
        let _ = std::fs::create_dir_all(&dir);
        let body = json!({
            "property": self.id,
            "part": label,
            "signature": v.sig,
            "message": v.msg,
            "seed": self.seed,
            "tier": self.tier.name(),
            "expect": "pass",
            "case": case,
        });
        let text = serde_json::to_string_pretty(&body).unwrap();
        let h = hash_of(&text);
        let path = dir.join(format!("fail-{}-{:016x}.json", self.seed, h));
        let _ = std::fs::write(&path, text);
        eprintln!("violation [{}] {}: {}", label, v.sig, v.msg);
        println!("VIOLATION property={} replay={}", self.id, path.display());
        let mut st = self.state.lock().unwrap();
        st.violations.push((v.sig.clone(), path));
        st.violating_cases.push((label.to_string(), v.sig.clone(), body["case"].clone()));
    }

    /// Apply the known-findings policy to a check result inside a case.
    /// Returns Ok if the case passes or hit only a listed known finding.
    pub fn filter_known(&self, r: CheckResult, obs: &mut Obs) -> CheckResult {
        match r {
            Ok(()) => Ok(()),
            Err(v) => {
                if self.is_known(&v.sig).is_some() {
                    obs.known_hits.push(v.sig.clone());
                    self.print_known(&v.sig);
                    Ok(())
                } else {
                    Err(v)
                }
            }
        }
    }

    /// Generated exploration of one part of a property.
    ///
    /// `strat_f` builds the strategy (called once per worker). `check_f`
    /// builds the per-worker check closure (so per-thread state such as
    /// sockets and runtimes can live in it).
    pub fn explore<T, S, SF, CF, C>(
        &self,
        label: &str,
        rule: &str,
        total_cases: u64,
        strat_f: SF,
        check_f: CF,
    ) where
        T: Debug + Hash + Serialize + Clone + Send + 'static,
        S: Strategy<Value = T>,
        SF: Fn() -> S + Sync,
        CF: Fn(usize) -> C + Sync,
        C: Fn(&T, &mut Obs) -> CheckResult,
    {
        // a violation found by an earlier part does not stop the later parts: they explore other sub-spaces and the
        // evidence should say what was covered there too (the expensive real-time and fuzz tiers are skipped then)
        let workers = self.workers.max(1).min(total_cases.max(1) as usize);
        let per = total_cases.div_ceil(workers as u64);
        let results: Vec<(PartStats, Option<(Violation, Value)>)> = std::thread::scope(|sc| {
            let mut hs = Vec::new();
            for w in 0..workers {
                let strat_f = &strat_f;
                let check_f = &check_f;
                hs.push(sc.spawn(move || {
                    let seed = mix_seed(self.seed, &self.id, label, w);
                    let cfg = Config {
                        cases: per as u32,
                        failure_persistence: None,
                        rng_algorithm: RngAlgorithm::ChaCha,
                        rng_seed: RngSeed::Fixed(seed),
                        max_shrink_iters: 4000,
                        max_shrink_time: 120_000,
                        max_global_rejects: 65536,
                        ..Config::default()
                    };
                    let _ = seed_bytes; // (kept for replay tooling)
                    let mut runner = TestRunner::new(cfg);
                    let stats = RefCell::new(PartStats::new(label, rule));
                    let failed = std::cell::Cell::new(false);
                    let check = check_f(w);
                    let strat = strat_f();
                    let res = runner.run(&strat, |case| {
                        let mut obs = Obs::default();
                        let r = check(&case, &mut obs);
                        let r = self.filter_known(r, &mut obs);
                        if !failed.get() {
                            if r.is_err() {
                                failed.set(true);
                            }
                            let h = hash_of(&case);
                            stats.borrow_mut().record(h, obs, || {
                                serde_json::to_value(&case).unwrap_or(Value::Null)
                            });
                        }
                        match r {
                            Ok(()) => Ok(()),
                            Err(v) => Err(TestCaseError::fail(format!("{}|{}", v.sig, v.msg))),
                        }
                    });
                    let fail = match res {
                        Ok(()) => None,
                        Err(TestError::Fail(reason, value)) => {
                            let r = reason.message().to_string();
                            // Re-run on the minimal case to get the exact violation.
                            let mut obs = Obs::default();
                            let v = match std::panic::catch_unwind(std::panic::AssertUnwindSafe(
                                || check(&value, &mut obs),
                            )) {
                                Ok(Err(v)) => v,
                                Ok(Ok(())) => {
                                    let (s, m) = r.split_once('|').unwrap_or(("unknown", &r));
                                    Violation {
                                        sig: s.to_string(),
                                        msg: format!("{m} (not reproduced on re-run of the shrunk case)"),
                                    }
                                }
                                Err(p) => Violation {
                                    sig: "panic".into(),
                                    msg: panic_text(&p),
                                },
                            };
                            Some((v, serde_json::to_value(&value).unwrap_or(Value::Null)))
                        }
                        Err(TestError::Abort(reason)) => {
                            eprintln!("proptest aborted in {label}: {}", reason.message());
                            std::process::exit(2);
                        }
                    };
                    (stats.into_inner(), fail)
                }));
            }
            hs.into_iter().map(|h| h.join().unwrap()).collect()
        });
        let mut merged = PartStats::new(label, rule);
        let mut first_fail = None;
        for (st, f) in results {
            merged.merge(st);
            if first_fail.is_none() {
                first_fail = f;
            }
        }
        self.add_part(merged);
        if let Some((v, case)) = first_fail {
            self.report_violation(label, &v, case);
        }
    }

    /// Enumerated (non-random) exploration: `items` yields every case.
    pub fn enumerate<T, I, C>(&self, label: &str, rule: &str, exhaustive: bool, items: I, check: C)
    where
        T: Debug + Hash + Serialize,
        I: Iterator<Item = T>,
        C: Fn(&T, &mut Obs) -> CheckResult,
    {
        let mut stats = PartStats::new(label, rule);
        stats.exhaustive = exhaustive;
        for case in items {
            let mut obs = Obs::default();
            let r = std::panic::catch_unwind(std::panic::AssertUnwindSafe(|| check(&case, &mut obs)));
            let r = match r {
                Ok(r) => r,
                Err(p) => Err(Violation {
                    sig: "panic".into(),
                    msg: panic_text(&p),
                }),
            };
            let r = self.filter_known(r, &mut obs);
            let h = hash_of(&case);
            stats.record(h, obs, || serde_json::to_value(&case).unwrap_or(Value::Null));
            if let Err(v) = r {
                self.add_part(stats);
                self.report_violation(label, &v, serde_json::to_value(&case).unwrap_or(Value::Null));
                return;
            }
        }
        self.add_part(stats);
    }

    /// Replay one committed case of part `label`, bypassing the library.
    pub fn replay_case<T, C>(&self, label: &str, file: &Path, body: &Value, check: C) -> bool
    where
        T: DeserializeOwned + Debug,
        C: Fn(&T, &mut Obs) -> CheckResult,
    {
        if body.get("part").and_then(Value::as_str) != Some(label) {
            return false;
        }
        let case: T = match serde_json::from_value(body["case"].clone()) {
            Ok(c) => c,
            Err(e) => {
                eprintln!("replay {}: cannot decode case: {e}", file.display());
                std::process::exit(2);
            }
        };
        let mut obs = Obs::default();
        let r = std::panic::catch_unwind(std::panic::AssertUnwindSafe(|| check(&case, &mut obs)));
        let r = match r {
            Ok(r) => r,
            Err(p) => Err(Violation {
                sig: "panic".into(),
                msg: panic_text(&p),
            }),
        };
        let mut st = self.state.lock().unwrap();
        *st.extra
            .entry("replayed".into())
            .or_insert(json!(0)) = json!(st.extra.get("replayed").and_then(Value::as_u64).unwrap_or(0) + 1);
        drop(st);
        match r {
            Ok(()) => {}
            Err(v) => {
                if self.is_known(&v.sig).is_some() {
                    self.print_known(&v.sig);
                } else {
                    eprintln!("replay violation [{}] {}: {}", label, v.sig, v.msg);
                    println!("VIOLATION property={} replay={}", self.id, file.display());
                    self.state
                        .lock()
                        .unwrap()
                        .violations
                        .push((v.sig.clone(), file.to_path_buf()));
                }
            }
        }
        true
    }

    pub fn replay_files(&self) -> Vec<(PathBuf, Value)> {
        let mut out = Vec::new();
        if let Some(p) = &self.replay {
            let is_json = std::fs::read_to_string(p).ok().and_then(|t| serde_json::from_str::<Value>(&t).ok()).is_some();
            if !is_json {
                if !crate::fuzzrun::replay_raw(self, p) {
                    eprintln!("cannot read replay file {} (neither a JSON case nor a raw artifact for {})", p.display(), self.id);
                    std::process::exit(2);
                }
                return out;
            }
            match std::fs::read_to_string(p)
                .ok()
                .and_then(|t| serde_json::from_str::<Value>(&t).ok())
            {
                Some(v) => out.push((p.clone(), v)),
                None => {
                    eprintln!("cannot read replay file {}", p.display());
                    std::process::exit(2);
                }
            }
            return out;
        }
        // VERIF_NO_REPLAY=1 skips the committed regression inputs (used to measure what the generators find alone)
        if std::env::var("VERIF_NO_REPLAY").is_ok() {
            return out;
        }
        let dir = crate::rt::verif_dir().join("replays").join(&self.id);
        if let Ok(rd) = std::fs::read_dir(&dir) {
            let all: Vec<PathBuf> = rd.filter_map(|e| e.ok()).map(|e| e.path()).collect();
            let mut files: Vec<PathBuf> = all.iter().filter(|p| p.extension().is_some_and(|x| x == "json")).cloned().collect();
            files.sort();
            // raw fuzz artifacts kept as regression inputs
            let mut raws: Vec<PathBuf> = all.iter().filter(|p| p.extension().is_some_and(|x| x == "bin")).cloned().collect();
            raws.sort();
            for r in raws {
                crate::fuzzrun::replay_raw(self, &r);
            }
            for p in files {
                if let Some(v) = std::fs::read_to_string(&p)
                    .ok()
                    .and_then(|t| serde_json::from_str::<Value>(&t).ok())
                {
                    out.push((p, v));
                }
            }
        }
        out
    }

    pub fn write_evidence(&self, level: &str) {
        let st = self.state.lock().unwrap();
        let mut evaluations = 0u64;
        let mut distinct = 0u64;
        let mut rules = Vec::new();
        let mut samples = Vec::new();
        let mut parts = Vec::new();
        let mut all_exh = !st.parts.is_empty();
        for p in &st.parts {
            evaluations += p.evaluations;
            distinct += p.nontrivial_hashes.len() as u64;
            rules.push(format!("[{}] {}", p.label, p.rule));
            for s in p.samples.iter().take(3) {
                samples.push(json!({"part": p.label, "case": s}));
            }
            all_exh &= p.exhaustive;
            parts.push(json!({
                "part": p.label,
                "evaluations": p.evaluations,
                "nontrivial": p.nontrivial_total,
                "distinct_nontrivial": p.nontrivial_hashes.len(),
                "classes": p.classes,
                "counters": p.counters,
                "excluded_known": p.excluded_known,
                "exhaustive": p.exhaustive,
            }));
        }
        // violating cases are (minimal) non-trivial cases by definition; they are listed first
        let mut vc_hashes: HashSet<u64> = HashSet::new();
        for (part, sig, case) in st.violating_cases.iter() {
            if vc_hashes.insert(hash_of(&case.to_string())) {
                distinct += 1;
            }
            samples.insert(0, json!({"part": part, "violating": true, "signature": sig, "case": case}));
        }
        evaluations = evaluations.max(st.violating_cases.len() as u64);
        let mut coverage = json!({
            "evaluations": evaluations,
            "distinct_nontrivial": distinct,
            "rule": rules.join(" ;; "),
            "samples": samples,
            "parts": parts,
            "exhaustive": all_exh,
        });
        for (k, v) in &st.extra {
            coverage[k] = v.clone();
        }
        let ev = json!({
            "property_id": self.id,
            "tier": self.tier.name(),
            "seed": self.seed,
            "level": level,
            "coverage": coverage,
            "assumptions": st.assumptions,
            "wall_s": self.start.elapsed().as_secs_f64(),
            "violations": st.violations.len(),
        });
        let dir = crate::rt::verif_dir().join("evidence");
        let _ = std::fs::create_dir_all(&dir);
        let path = dir.join(format!("{}.json", self.id));
        std::fs::write(&path, serde_json::to_string_pretty(&ev).unwrap()).expect("write evidence");
        eprintln!(
            "[{}] tier={} seed={} evaluations={} distinct_nontrivial={} violations={} wall={:.1}s",
            self.id,
            self.tier.name(),
            self.seed,
            evaluations,
            distinct,
            st.violations.len(),
            self.start.elapsed().as_secs_f64()
        );
    }
}

pub fn panic_text(p: &Box<dyn std::any::Any + Send>) -> String {
    if let Some(s) = p.downcast_ref::<&str>() {
        s.to_string()
    } else if let Some(s) = p.downcast_ref::<String>() {
        s.clone()
    } else {
        "panic (non-string payload)".to_string()
    }
}

pub fn load_known() -> Vec<KnownEntry> {
    let path = crate::rt::verif_dir().join("known_findings.txt");
    let mut out = Vec::new();
    if let Ok(text) = std::fs::read_to_string(path) {
        for line in text.lines() {
            let line = line.trim();
            // only `known:` lines suppress; `fixed:` lines never do.
            let Some(rest) = line.strip_prefix("known:") else {
                continue;
            };
            let mut property = String::new();
            let mut sig = String::new();
            let mut text = Vec::new();
            for tok in rest.split_whitespace() {
                if let Some(p) = tok.strip_prefix("property=") {
                    property = p.to_string();
                } else if let Some(s) = tok.strip_prefix("signature=") {
                    sig = s.to_string();
                } else {
                    text.push(tok);
                }
            }
            if !property.is_empty() && !sig.is_empty() {
                out.push(KnownEntry {
                    property,
                    sig,
                    text: text.join(" "),
                });
            }
        }
    }
    out
}

/// Monotone index mapping (keeps shrinking effective): maps a u16 draw onto 0..len.
#[inline]
pub fn idx(i: u16, len: usize) -> usize {
    if len == 0 {
        return 0;
    }
    ((i as usize) * len) >> 16
}

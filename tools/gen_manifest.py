#!/usr/bin/env python3
"""Regenerates /verif/MANIFEST.json from the table below (keeps it valid at all times)."""
import json, os, sys
HERE = os.path.dirname(os.path.dirname(os.path.abspath(__file__)))

# id -> (engine, category, technique, text, note)
CHECKS = {
 "C18": ("proptest grammar generators + refmodel (JSON-RPC outcome + 6-field config model) + real control_socket::spawn over a Unix socket + E6 + libFuzzer c18_control (thorough)", "exploration",
         "property-based testing: grammar-generated and byte-mutated lines and line histories against an independent JSON-RPC reference model; differential between the stdin and socket entry points; thread stress in the thorough tier",
         "For every generated line (requests from a grammar over methods x params x ids x versions, JSON of any shape, arbitrary bytes, truncated/mutated requests) dispatch returns without panic, any response is one well-formed JSON-RPC 2.0 object, requests with an id get exactly one response echoing the id with the predicted result or error code (-32700/-32600/-32601/-32602), notifications get none and are still applied; in histories the snapshot and the next get_status always show the model, the timeout stays clamped to 1000..60000 and is echoed as applied; dispatch() and dispatch_async() (with and without a subscription context) answer identically and leave equal configurations. Socket tier (quick and thorough): the real control_socket::spawn serves generated line sequences (requests, notifications, garbage, multibyte strings, several per write, split writes) on a Unix socket; the responses must equal those of dispatch() on the same lines, one per request, in order. E6 (1 scenario quick, 4 thorough): 400 generated lines over the control socket of a running sender answer like dispatch() on a twin configuration and the live configuration follows. Ids are compared as JSON values with a 1e-12 relative tolerance for numbers the JSON library reads as floats, also inside structured ids.",
         "Left open on purpose: JSON that is not a request object, missing/non-string jsonrpc or method, id null, duplicate keys, numbers too large for the JSON library, subscription methods. Concurrency is a 4-thread stress (thorough), not schedule enumeration.",
         "5/C18"),
 "C19": ("proptest text grammar + E3 shellsim (real apply_connection_changes)", "exploration",
         "property-based testing: generated file contents against an independent line splitter + IpAddr::from_str; generated reload sequences on a live shell with survivor/removed/added relations over a full state projection",
         "Refuse iff no parsable line (and for a missing file), else exactly the parsable lines in order; applying a list keeps every still-listed link with identity, socket object, local port and full state projection (incl. guard state and queue contents) unchanged, removes exactly the unlisted links together with their I/O handle and every attribution record the ownership model says they owned, adds each new address exactly once with an I/O entry, forgets the routing choice when a link was removed; refused reloads change nothing. E6 (quick and thorough): SIGHUP reloads on the real running sender - a garbage-only file is refused and changes nothing, a real reload registers the new address, silences the removed one and the stream goes on; a reload requested while the start-up probe round is still open (one address never answers) is applied like any other.",
         "IPv4 loopback aliases only in the apply tier. Order/phase of added links and first_invalid_line not asserted. Held on what was explored.",
         "5/C19"),
 "C20": ("E5: hub futures polled by hand over generated operation interleavings (hub API and dispatch_async with a subscription context); real-thread tier (thorough); E6 subscription phase", "exploration",
         "stateful property testing over generated interleavings with hand-polled futures (a blocking publish is a pending future); OS-thread stress for lock contention",
         "A publish completes within 3 polls while nothing else runs whatever the state of the subscribers' channels (capacity 1..128, full, closed with and without draining, never drained); every pushed line is a notification with method <topic>.update of the subscription's own topic and its own id, on its own connection; ids never repeat; per subscription each publisher's event numbers are strictly increasing; nothing published after an unsubscribe completed is delivered; closed receivers that met a publish are no longer counted and live ones are. Thorough: publisher threads finish while three subscribers never drain, observer sees per-publisher order, pruning count exact. Subscribe / unsubscribe also go through the control layer (dispatch_async with the connection's subscription context), unsubscribe as a request and as a notification: afterwards the hub no longer knows the id and the connection no longer owns it. E6 (quick and thorough): a subscription made over the real control socket of a running sender receives well-formed stats updates tagged with its id and nothing after unsubscribe, while a second subscriber that never reads does not stop the keepalives.",
         "On one thread no task suspends while holding the hub lock, so interleavings are of whole operations; true parallel interleavings are only sampled (thorough). Delivery itself is not promised, delivered events are counted.",
         "5/C20"),
 "C01": ("E3 shellsim (real handle_srt_packet / handle_uplink_packet / flush_all_batches / handle_housekeeping over loopback, virtual clock) + short-send tier (AF_UNIX datagram uplinks with tiny buffers) + E6 real run_sender_with_config (1 scenario quick, 6 thorough)", "exploration",
         "stateful property testing with a wire-log monitor: generated event-loop interleavings and faults; per-link queue equation wire ++ queue_after == queue_before ++ routed after every step",
         "For generated interleavings of the event loop's arms (client datagrams of every kind, length 1..1500 and sequence number incl. repeats; real uplink packets; flush ticks; housekeeping; clock steps; all batch regimes; send failures via EPIPE; re-registration) on 1..4 uplinks in both modes with the guard on/off: nothing is invented, corrupted, reordered per link or duplicated except counted probe copies on stall-gated links (<= ceil(n/100)); queue depth <= 32 after every step and 0 after a flush tick; a datagram leaves a queue without reaching the wire only on a link that failed or re-registered in that step; a datagram is refused only when no uplink is usable. Short-send tier: the uplink socket is replaced by a tiny-buffer datagram pair so that sendmmsg accepts only a prefix of a batch; the accepted prefix must reach the wire once, in order, and the rest follows the failure rule. Every queued datagram carries the sequence number the reference decoder reads from its bytes. E6: the real sender in real time against the cooperative receiver - every client datagram (lengths 20..1500 incl. 1472/1473/1499/1500) reaches the receiver byte-identical and in per-link order; a datagram arriving with other bytes / another length is reported as corrupted, not lost.",
         "Loopback only (no kernel reordering/loss); client datagrams never carry SRTLA type bytes; pre-registration forwarding is outside the statement. Held on what was explored.",
         "5/C01"),
 "C07": ("E1 (real SrtlaRegistrationManager in the shell's call order) + E3 shellsim tier + E6 handshake phase on the real loop", "exploration",
         "bounded-exhaustive enumeration of handshake sequences (depth 5-6 over a 16-symbol alphabet) plus generated sequences to depth 60, checked by an independent protocol monitor; shell tier reads REG frames off the wire",
         "Never a REG1 on a second link while one is outstanding; driver REG1 at a tick only while no uplink is connected; id adopted only from a >=258-byte REG2 on the pending link, exactly bytes 2..258, followed by exactly one broadcast round; every REG1 / registration REG2 carries the adopted id; connected flips only on REG3 on that link; REG_ERR leaves nothing pending; the first tick at/after the 4 s deadline abandons the REG1 and a later REG_NGP produces a new one. E6: start-up with the first one or two REG1 frames lost, later the receiver forgets the group (REG_NGP, or REG_ERR for 12 s first): no REG1 on another link within 4 s of an unanswered one, every registration REG2 carries an id the receiver handed out, no second REG2 within 300 ms of a group's creation, all links registered within 30 s and again within 45 s.",
         "Tier 1 copies the shell's call order; tier 2 uses the real shell incl. start-up probing and the reconnect re-send path. The immediate REG1 answer to REG_NGP while a link is already connected (driver count from its last pass) is counted in the evidence, not flagged (DESIGN section 11). Exhaustive only to the stated depth.",
         "5/C07"),
 "C08": ("E3 shellsim + cooperative receiver model + generated fault schedules + E6 recovery phase on the real loop", "fault_enumeration",
         "fault-injection property testing: generated per-link fault schedules on a simulated clock against the real shell; teardown-cause, retry-spacing, bounded-recovery and clean-rejoin monitors",
         "Over generated schedules of black-holes, one-way loss, lost handshake replies, receiver amnesia (REG_NGP / REG_ERR) and socket send errors on 2..4 links, every timeout setting and both modes: an established link is torn down only after silence >= its timeout, an injected send failure or a REG_ERR; reconnect attempts happen only in housekeeping, >= 1 s apart before the first REG3 and >= 5 s after, and keep coming while the link is down; once faults are over and the receiver holds the adopted id the link is connected within 30 s; a rejoining link has window 20000, zero in-flight, empty queue, warming phase; survivors never drop a datagram while usable; a receiver-side monitor (members expire after 10 s of silence, as in srtla_rec) flags a link the sender still calls connected long after the receiver forgot it (failure never detected). Strategies include long outages beyond the receiver expiry, flapping links and runs with the stall guard off; silence at teardown is measured against the configured timeout once a routing decision was taken under it. E6 (1 scenario quick, 3 thorough): the timeout is raised at run time, one link of the real sender is black-holed while the stream goes on - nothing the client sent is lost beyond one batch, the first re-registration comes no earlier than the configured timeout, retries >= 5 s apart, healthy links never re-register, a REG3 to the replaced socket does not revive the link, registered again <= 33 s after the path returns, no file descriptors left behind by the retries.",
         "Liveness clauses are bounded safety over a 70 s (quick) / 400 s (thorough) simulated horizon. Receiver model written from the protocol docs. Link 0 is fault-free except in total-outage runs (all links black-holed together; the all-links-failed error of handle_housekeeping is logged by the real loop, which goes on - so does the simulation). A receiver that lost the group and answers REG_NGP must be given a new group within timeout + 30 s; while it refuses with REG_ERR no recovery is demanded.",
         "5/C08"),
 "C09": ("E3 shellsim (real handle_uplink_packet + real drain_packet_queue backlog tier) + reference classification + E6 real reader tasks (1 scenario quick, 6 thorough) + libFuzzer c09_uplink (thorough)", "exploration",
         "property-based testing with structure-aware generated datagrams on generated link states; oracle = reference classification by type, relay byte-equality, liveness and delivery-proof model",
         "Every generated datagram (all type codes reachable, SRTLA/SRT types over-weighted, lengths around every parser guard up to 1500, SRTLA ACKs naming held seqs, keepalive echoes in every mutation) arriving on links in generated states: internal types never reach the client, everything else of >= 2 bytes reaches it byte-identically at least once and nothing else does (nothing before a client is known); non-registration datagrams refresh liveness; delivery proof moves only for an earned SRTLA ACK (arrival link first) or an echo answered while waiting with 0 < RTT <= 10 s; no panic. Backlog tier: bursts of up to 600 datagrams are queued on the real uplink channel and drained by the real drain_packet_queue in generated budgets; every relayable datagram reaches the client exactly once and in per-link order, none is left behind. E6: bursts of 70-350 receiver datagrams through the real per-uplink reader tasks reach the client unchanged, internal types do not - also on a link that is otherwise silent (the receiver stops answering it first, so nothing but the burst wakes its reader).",
         "Reference classification by the first two bytes. Held on what was explored; a libFuzzer target extends the byte-level search in the thorough tier when built.",
         "5/C09"),
 "C14": ("E3 shellsim (real handle_housekeeping + handle_uplink_packet) + E1 RTT tracker streams", "exploration",
         "stateful property testing: generated timed histories of housekeeping ticks and echo policies; keepalive frames decoded with the reference decoder against a pre-tick snapshot",
         "Keepalive gap on a live link <= 2 x the largest tick spacing; every keepalive is 38 bytes = 0x9000, be64(tick time), magic, version, and window / in-flight / loss count / rate (and id) equal to the pre-tick link state; an echo yields an RTT sample iff a probe was outstanding, the frame has >= 10 bytes and 0 < now - ts <= 10 s; smoothed RTT finite and >= 0 after every op and for arbitrary sample streams 1..10000 ms; after a link reset (timeout, REG_ERR, re-registration) no echo yields a sample until a new keepalive has been sent on that link. E6 (1 scenario quick, 3 thorough): keepalive cadence on the real sender in real time.",
         "Establishment counts as tick 0. 'Live' uses the timeout the link itself holds. Held on what was explored.",
         "5/C14"),
 "C10": ("E3 shellsim closed loop (classic mode, guard off) + refmodel::classic", "exploration",
         "model-based differential testing: generated closed-loop histories on the real shell in lock-step with an independent re-implementation of the reference algorithm",
         "After every op of generated closed-loop histories (client datagrams of every kind incl. retransmit-flagged and critical-window, flushes, real SRTLA ACK / SRT ACK / NAK packets, housekeeping ticks, timeouts, REG3; any starting window vector) the link that received the datagram, every window, in-flight count and queue depth equal those of the reference model (first maximum of window/(in-flight+queued+1); +29 iff in-flight x 1000 > window; +1 per acked number on connected links; -100 per charged NAK; bounds; no tick changes).",
         "Trusts refmodel::classic (written from the statement). Initial windows written directly (the statement quantifies over any vector). Flush timing read from the real queue. Held on what was explored.",
         "5/C10"),
 "C11": ("E2 selstate, enhanced mode + decision engine glue part (real handle_srt_packet, reloads)", "exploration",
         "property-based testing with an independent score recomputation (validity predicates with a 1e-9 float band): idempotence, hysteresis, cap, arg-max, factor ranges",
         "On every enhanced-mode select of generated link-state histories: re-running selection returns the same link and previous:=result returns result; leaving a scored previous link needs >= 1.10 x its score; a capped link is never returned while an unconstrained link exists; the result is held or an arg-max of the independently recomputed scores (integer base x phase weight x quality x soft-cap x 0.02 gate); quality multiplier finite, in [0.35, 1.133], equal to the documented formula whenever refreshed, never older than 50 ms when used; soft-cap factor in [0.1, 1]. Glue part: for every plain data datagram in enhanced mode the link it lands on equals the scheduler's own answer for the anchor the glue should pass (its previous choice; none after a reload removed a link).",
         "Uses the code's public in_flight_cap_exceeded as the definition of 'over its cap' and reads the multiplier actually used through a hook accessor. Held on what was explored.",
         "5/C11"),
 "C03": ("E2 selstate (real select_connection_idx on real connections; links removed / added as a reload does) + E3 shellsim decision tier (real handle_srt_packet, reloads through the real apply_connection_changes)", "exploration",
         "property-based testing with a validity predicate: generated link-state histories and configs, every select checked 'usable link exists => Some'; shell tier with states produced by real packets incl. REG_ERR",
         "On every select of generated link-state histories (phases, receive age at the timeout edges, in-flight around thresholds, proof age, latch/pull history, weak/loss-degraded, CC target vs bitrate, quality history, every config setting, both modes) a link is returned whenever an independently computed usable link exists; the shell tier repeats the predicate on real handle_srt_packet decisions (datagram must be queued somewhere) with link states produced by real uplink packets, housekeeping and clock steps.",
         "Link states are reachable by construction (production calls + fields the shell writes). Gate-combination histogram is in the evidence. Held on what was explored.",
         "5/C03"),
 "C04": ("E3 shellsim decision tier (real handle_srt_packet over loopback, incl. reloads) + fault-history tier (faultsim schedules, guard on/off) + E6 recovery phase (thorough)", "exploration",
         "property-based testing with an eligibility predicate evaluated on the link that actually received the unique copy (read off queues and the wire) after generated real-packet histories",
         "For every client datagram (data, retransmit-flagged, control; critical window open/closed; both modes; quality on/off) pushed through the real handle_srt_packet after a generated history of real uplink packets, housekeeping, clock steps and config changes, the link holding the unique copy is registered since its last reset, heard within the timeout and not stall-gated in that call; extra copies only on stall-gated connected links and never for control packets. Wire clause: no stream datagram that was accepted after the first establishment leaves on a link that is not registered at that moment. Fault-history tier: the same predicate on every datagram of the C08 fault schedules (black-holes, REG_ERR / REG_NGP amnesia, send errors, flapping). Thorough adds the real loop: a black-holed link carries no stream datagram between its re-registration frame and the receiver's REG3.",
         "Eligibility uses the three clauses of the statement (+ connected). Held on what was explored.",
         "5/C04"),
 "C12": ("E2 selstate with a guard-always-off twin + decision engine glue part (real handle_srt_packet)", "exploration",
         "metamorphic / relational property testing: state projection before = after every select; twin run with the guard always off must take the same decision whenever the guard is off",
         "Every select leaves a full projection of each link's liveness/accounting state unchanged; with the guard off every stall flag, latch and stamp is cleared and the decision equals that of a twin link set that ran the same history with the guard never on (same previous index). Glue part: after every client datagram routed with the guard off - data, retransmit-flagged, control, critical window open or closed - no link keeps a stall flag, latch, recovery run or silence pull.",
         "Twin comparison only when the select is >=50 ms after the previous one or quality scoring is not in effect (quality cache refresh). Held on what was explored.",
         "5/C12"),
 "C13": ("E1 core traces (real select_connection_idx drives latch and pull)", "exploration",
         "stateful property testing with an independent temporal monitor over generated timed traces",
         "Latch engages only with non-zero proof older than clamp(4 x sRTT, 1000, ceiling) and (in-flight >= threshold or silence pull held); gate-event counter moves exactly on engage; release only after reset/guard-off or after proof stayed fresh at every decision of a run spanning >= 2 x the smallest window; silence pull engages only when connected, loaded and silent for min(max(2 x sRTT, 250), W) and releases only when heard again, disconnected, reset or guard-off. Traces include NAKs for numbers the link holds (a charge, never proof).",
         "Proof/inbound times are tracked by the harness from the trace. 'Must latch' is not asserted (the statement only says 'only when'). Held on what was explored.",
         "5/C13"),
 "C16": ("E1: LinkCongestionState direct + LinkCcController::tick_all on real connections", "exploration",
         "stateful property testing with a snapshot-to-snapshot monitor over generated tick histories",
         "Target within [100k, 200M]; Bootstrap at the floor until an RTT sample is fed; lowered only by BackingOff (>= 0.85 x prev, >= min(observed, prev)) or once on Drain entry (>= 0.75 x prev); BackingOff never raises; seeding bounded by 1.06 x max(min(observed,4M),1M); later growth <= 6% per tick and <= 2 x observed; loss latch sets only after the exported loss average stayed > 0.55 for >= 4000 ms and clears only below 0.25. Controller histories include ticks on links that are torn down and stay disconnected (a snapshot for every link in every tick).",
         "+-1 bit/s truncation slack. Observed bitrate written to the field the controller reads. Held on what was explored.",
         "5/C16"),
 "C17": ("E1: WeakLinkFilter::classify on real connections", "exploration",
         "stateful property testing with a verdict-sequence monitor over generated tick histories",
         "Never weak when disconnected or when total connected throughput < 100 kbit/s; a delay verdict needs the delay signal on the previous tick too; at most 15 consecutive low-share/no-traffic verdicts followed by three not-weak ticks; enter low-share only below 250/n permille (+1), leave only above 750/n permille (-2).",
         "Delay tier read from the classifier's own result; leave threshold enforced only when leaving a low-share/no-traffic verdict. Held on what was explored.",
         "5/C17"),
 "C02": ("E3-lite shellsim (real forward_via_connection / handle_uplink_packet / flush_all_batches over loopback, virtual clock)", "exploration",
         "model-based stateful property testing: generated send/ACK/SRTLA-ACK/NAK/reset histories (proptest Vec<Op> + interpreter) against a per-link set model in lock-step",
         "After every op of a generated history the real per-link in-flight count equals the size of an independent set model (insert at flush, retire by cumulative ACK on every link, by SRTLA ACK on one holder with the arrival link first, by a NAK on at most one holder, by reset), is never negative, and get_score equals window/(in-flight+queued+1). Covers late sends below the ACK high-water mark, ACK jumps across the 64-wide fast path, duplicate/stale ACKs, probe copies, ranges and resets with outstanding packets.",
         "Sequence spans do not wrap (as stated). Where several links could absorb an SRTLA ACK/NAK the oracle accepts any one holder and follows the code. Flush timing is read from the real queue depth. Held on what was explored; absence not proved.",
         "5/C02"),
 "C05": ("E3-lite shellsim + real SequenceTracker / attribute_nak / apply_connection_changes + decision engine (real handle_srt_packet with the real send_stall_probes)", "exploration",
         "model-based stateful property testing: generated routing/NAK histories against an independent ownership model; per-NAK delta check on all links",
         "Around every NAKed number (real NAK packets through handle_uplink_packet, or number-by-number through the real attribute_nak) the (loss count, window, in-flight) deltas on all links show at most one charged link, which held the packet, charged exactly (+1, -100 floored at 1000, -1); while the independent ownership model (last unique routing per slot, 5 s, purged on link removal) remembers a carrier no other link is charged; unknown/repeated NAKs change nothing. Histories use up to 6 links and reloads that drop one or two links at once. Real-routing part: whenever the real handle_srt_packet duplicated a datagram onto a stall-gated link, it is flushed and NAKed at once (arrival on the gated link, the carrier or a third link) and NAKed again - the first NAK may charge only the carrier of the unique copy, the repeat nothing.",
         "Ownership model written from the statement (5000 ms inclusive, slot = seq mod 16384). Probe copies are queued the way send_stall_probes does. Held on what was explored.",
         "5/C05"),
 "C06": ("E1 core histories + E3 shellsim tier (real handle_housekeeping) + E6 mode-switch phase on the real loop", "exploration",
         "stateful property testing: inductive invariant checked after every op of generated timed histories on a real SrtlaConnection; real housekeeping ticks with the mode chosen per tick",
         "Window in [1000,60000] after every op; 20000 on a new link and after mark_for_recovery/reset_for_reconnect; NAK ops never raise, ACK/recovery ops never lower; fast recovery entered only by a NAK at <=2000 and left only at >=12000 or on reset/REG3; in-flight arguments up to i32::MAX (overflow checks on). Shell tier: real handle_housekeeping ticks in classic mode never move the window of a link that stays connected, while enhanced ticks in the same histories do (counted). E6: on the real loop without client traffic the windows reported in keepalive telemetry stay constant across ticks whenever the mode is classic - at start-up and after run-time mode switches in both directions.",
         "REG3 counts as a link reset for leaving fast recovery. Held on what was explored.",
         "5/C06"),
 "C15": ("proptest+exhaustive (+libFuzzer c15_codec in thorough) + E3 shellsim glue-decode part", "exploration",
         "differential testing against an independent reference decoder: exhaustive for inputs <=2 bytes and all type codes x guard lengths, proptest-generated beyond; builder round-trips",
         "Every public decoder/predicate agrees with an independently written reference decoder on every explored byte string (exhaustive for lengths 0..2 and for all 65536 type codes at every guard length; generated typed frames, NAK loss lists and mutated keepalives up to 1500 bytes); NAK output size bound; every builder decodes back to its arguments with exact lengths. Registration frames (exhaustive): the manager's REG2 id decoder in every state x pending link x arrival link x 6 frame types x every length 0..1500 - no panic, id = bytes 2..258 exactly when a >= 258-byte REG2 arrives on the pending link. Glue-decode: the sequence number the real listener arm (reused receive buffer) attaches to each queued client datagram equals the reference decoder's reading of exactly the received bytes (runts after long datagrams).",
         "Trusts refmodel::codec (written from the C15 statement and SRT/SRTLA docs). Inputs beyond 1500 bytes out of scope. Absence is not proved beyond the enumerated sub-spaces.",
         "5/C15"),
}

NOT_YET = "check not built yet in this round (planned in DESIGN.md section 5); not claimed until it exists"

def main():
    props = [json.loads(l) for l in open(os.path.join(HERE, "properties.jsonl"))]
    checks = []
    na = []
    for p in props:
        pid = p["id"]
        if pid in CHECKS:
            engine, cat, tech, text, note, ref = CHECKS[pid]
            checks.append({
                "property_id": pid,
                "quick_cmd": f"./check {pid} --tier quick",
                "thorough_cmd": f"./check {pid} --tier thorough",
                "evidence_file": f"/verif/evidence/{pid}.json",
                "replay_cmd_template": f"./check {pid} --replay {{path}}",
                "engine": engine,
                "level_claimed": {"category": cat, "text": text, "design_ref": ref},
                "level_note": note,
                "technique": tech,
            })
        else:
            na.append({"property_id": pid, "reason": NOT_YET})
    m = {
        "version": 1,
        "setup_cmd": "cd /verif && CARGO_NET_OFFLINE=true ./check --build-only",
        "hooks": {
            "guard": "cargo feature verif-hooks (srtla-core/verif-hooks, srtla_send/verif-hooks)",
            "enable": "the harness crate /verif/harness depends on /repo with features=[\"verif-hooks\"]; ./check rebuilds it from /repo's working tree on every invocation",
            "baseline_off_cmd": "cd /repo && CARGO_NET_OFFLINE=true cargo nextest run --workspace --no-fail-fast --tool-config-file pb:/w/lib/nextest.toml --profile pb --test-threads 8 --offline || (cd /repo && CARGO_NET_OFFLINE=true cargo test --workspace --no-fail-fast --offline)",
            "source_commits": json.load(open(os.path.join(HERE, "tools", "hook_commits.json"))),
            "add_only": True,
        },
        "engines": [
            {"name": "vcheck", "path": "/verif/harness", "serves_properties": sorted(CHECKS.keys()),
             "kind_free_text": "Rust binary: proptest TestRunner with fixed seeds, stateful histories as Vec<Op> + interpreter, enumerators for finite sub-spaces, independent reference models, known-findings matcher, evidence writer. Engines inside it: E1 core (sans-IO), E2 selstate (scheduler link states), E3 shellsim (the harness is the event loop around the real handlers, loopback sockets, virtual clock), E5 hand-polled hub futures, E6 e2e (real run_sender_with_config in real time against a cooperative receiver; thorough only; a failure must reproduce on an identical second run)"},
            {"name": "libfuzzer-targets", "path": "/verif/harness/fuzz", "serves_properties": ["C09", "C15", "C18"],
             "kind_free_text": "cargo-fuzz crate (libFuzzer, nightly): c15_codec, c09_uplink, c18_control; the semantic oracle is inside each target (fuzz_entry.rs); run by the thorough tier for a fixed wall-clock budget (VERIF_FUZZ_SECS), artifacts become replay files; a target that cannot be built is recorded as skipped, never as a violation"},
        ],
        "checks": checks,
        "notes": "All checks: ./check <ID> --tier quick|thorough. Exit 0 held, 1 violation (VIOLATION line + replay file under /verif/replays/<ID>/), 2 infrastructure. VERIF_SEED selects the PRNG seed (default 1).",
        "not_applicable": na,
    }
    json.dump(m, open(os.path.join(HERE, "MANIFEST.json"), "w"), indent=1)
    print("wrote MANIFEST.json:", len(checks), "checks,", len(na), "not claimed")

if __name__ == "__main__":
    main()

#!/usr/bin/env python3
"""Regenerates /verif/MANIFEST.json from the table below (keeps it valid at all times)."""
import json, os, sys
HERE = os.path.dirname(os.path.dirname(os.path.abspath(__file__)))

# id -> (engine, category, technique, text, note)
CHECKS = {
 "C15": ("proptest+exhaustive (+libFuzzer c15_codec in thorough)", "exploration",
         "differential testing against an independent reference decoder: exhaustive for inputs <=2 bytes and all type codes x guard lengths, proptest-generated beyond; builder round-trips",
         "Every public decoder/predicate agrees with an independently written reference decoder on every explored byte string (exhaustive for lengths 0..2 and for all 65536 type codes at every guard length; generated typed frames, NAK loss lists and mutated keepalives up to 1500 bytes); NAK output size bound; every builder decodes back to its arguments with exact lengths.",
         "Trusts refmodel::codec (written from the C15 statement and SRT/SRTLA docs). Inputs beyond 1500 bytes out of scope. Absence is not proved beyond the enumerated sub-spaces.",
         "5/C15"),
}

NOT_YET = "check not built yet in this round (planned in DESIGN.md section 5); not claimed until it exists"

def main():
    props = [json.loads(l) for l in open(os.path.join(HERE, "properties.jsonl"))]
    checks = []
    na = []
    for p in props:
        pid = p["id"]
        if pid in CHECKS:
            engine, cat, tech, text, note, ref = CHECKS[pid]
            checks.append({
                "property_id": pid,
                "quick_cmd": f"./check {pid} --tier quick",
                "thorough_cmd": f"./check {pid} --tier thorough",
                "evidence_file": f"/verif/evidence/{pid}.json",
                "replay_cmd_template": f"./check {pid} --replay {{path}}",
                "engine": engine,
                "level_claimed": {"category": cat, "text": text, "design_ref": ref},
                "level_note": note,
                "technique": tech,
            })
        else:
            na.append({"property_id": pid, "reason": NOT_YET})
    m = {
        "version": 1,
        "setup_cmd": "cd /verif && CARGO_NET_OFFLINE=true ./check --build-only",
        "hooks": {
            "guard": "cargo feature verif-hooks (srtla-core/verif-hooks, srtla_send/verif-hooks)",
            "enable": "the harness crate /verif/harness depends on /repo with features=[\"verif-hooks\"]; ./check rebuilds it from /repo's working tree on every invocation",
            "baseline_off_cmd": "cd /repo && CARGO_NET_OFFLINE=true cargo nextest run --workspace --no-fail-fast --tool-config-file pb:/w/lib/nextest.toml --profile pb --test-threads 8 --offline || (cd /repo && CARGO_NET_OFFLINE=true cargo test --workspace --no-fail-fast --offline)",
            "source_commits": json.load(open(os.path.join(HERE, "tools", "hook_commits.json"))),
            "add_only": True,
        },
        "engines": [
            {"name": "vcheck", "path": "/verif/harness", "serves_properties": sorted(CHECKS.keys()),
             "kind_free_text": "Rust binary: proptest TestRunner with fixed seeds, stateful histories as Vec<Op> + interpreter, enumerators for finite sub-spaces, independent reference models, known-findings matcher, evidence writer"},
        ],
        "checks": checks,
        "notes": "All checks: ./check <ID> --tier quick|thorough. Exit 0 held, 1 violation (VIOLATION line + replay file under /verif/replays/<ID>/), 2 infrastructure. VERIF_SEED selects the PRNG seed (default 1).",
        "not_applicable": na,
    }
    json.dump(m, open(os.path.join(HERE, "MANIFEST.json"), "w"), indent=1)
    print("wrote MANIFEST.json:", len(checks), "checks,", len(na), "not claimed")

if __name__ == "__main__":
    main()

#!/usr/bin/env bash
# tools/all_seeds.sh [glob]   (BENCH=1: use the scratch bench instead of /repo)
# Applies every stored seeded change in turn (reverting each), runs the quick check of the property it breaks with
# VERIF_NO_REPLAY=1 (generated search only, no stored counterexamples) and writes one line per change to
# seeded/RESULTS.txt.
cd /verif
OUT=${OUT:-seeded/RESULTS.txt}
: > $OUT.tmp
for d in seeded/${1:-C}*/; do
  id=$(basename $d)
  prop=$(python3 -c "import json;print(json.load(open('$d/meta.json'))['property'])")
  if [ -n "${BENCH:-}" ]; then
    r=$(VERIF_NO_REPLAY=1 tools/bench.sh try /verif/$d/patch.diff $prop 2>&1 | grep RESULT | sed 's/^RESULT [^ ]* //')
  else
    r=$(VERIF_NO_REPLAY=1 tools/try_seed.sh /verif/$d/patch.diff $prop 2>&1 | grep RESULT | sed 's/^RESULT [^ ]* //')
  fi
  echo "$id $r" | cut -c1-300 >> $OUT.tmp
done
mv $OUT.tmp $OUT

#!/usr/bin/env bash
# tools/try_seed.sh <patch.diff> <ID> [more IDs...]
# Applies a seeded change to /repo, runs the quick checks, always reverts. Prints exit codes.
set -u
P="$1"; shift
cd /repo || exit 2
if [ -n "$(git status --porcelain --untracked-files=no)" ]; then echo "/repo is dirty; refusing"; exit 2; fi
if ! git apply --check "$P" 2>/dev/null; then echo "patch does not apply: $P"; exit 2; fi
git apply "$P"
for ID in "$@"; do
  OUT=$(cd /verif && VERIF_SEED=${VERIF_SEED:-1} timeout 1200 ./check "$ID" --tier ${TIER:-quick} 2>&1); RC=$?
  SIG=$(echo "$OUT" | grep -E "^(violation|replay violation)" | head -1 | cut -c1-220)
  echo "RESULT $(basename $(dirname $(dirname $P)))/$(basename $(dirname $P)) $ID rc=$RC $SIG"
done
git -C /repo checkout -q -- .
# remove replay files the failing runs wrote (they belong to the seeded change, not to the tree)
cd /verif && git status --porcelain replays | grep '^??' | awk '{print $2}' | xargs -r rm -f

#!/usr/bin/env bash
# tools/confirm_seed.sh <worktree> <outdir>   e.g. /tmp/seed-C01 /tmp/seed-C01-out/a
# Confirms in the scratch worktree: patch applies, builds, full suite green with the patch,
# demo FAILS with the patch and PASSES without. Prints a one-line verdict.
set -u
WT="$1"; OUT="$2"
export CARGO_NET_OFFLINE=true
cd "$WT" || exit 2
git checkout -q -- . ; git clean -fdq tests/ 2>/dev/null
NAME="seeddemo_$(basename $(dirname $OUT))_$(basename $OUT)"; NAME=${NAME//-/_}
if ! git apply --check "$OUT/patch.diff" 2>/dev/null; then echo "VERDICT $OUT: patch does not apply"; exit 1; fi
git apply "$OUT/patch.diff"
SUITE=$(cargo nextest run --workspace --no-fail-fast --offline 2>&1 | grep -E "Summary|error\[" | tail -2 | tr '\n' ' ')
cp "$OUT/demo.rs" "tests/$NAME.rs"
WITH=$(cargo test --offline --features verif-hooks --test "$NAME" 2>&1 | grep -E "^test result|error(\[|:)" | head -3 | tr '\n' ' ')
git checkout -q -- . 
WITHOUT=$(cargo test --offline --features verif-hooks --test "$NAME" 2>&1 | grep -E "^test result|error(\[|:)" | head -3 | tr '\n' ' ')
rm -f "tests/$NAME.rs"
git checkout -q -- . ; git clean -fdq tests/ 2>/dev/null
echo "VERDICT $OUT: suite=[$SUITE] with_patch=[$WITH] without_patch=[$WITHOUT]"

#!/usr/bin/env bash
# tools/with_seed.sh <patch.diff> <command...> : apply a seeded change to /repo, rebuild the harness, run the command, always revert.
set -u
P="$1"; shift
cd /repo || exit 2
if [ -n "$(git status --porcelain --untracked-files=no)" ]; then echo "/repo is dirty; refusing"; exit 2; fi
git apply --check "$P" 2>/dev/null || { echo "patch does not apply: $P"; exit 2; }
git apply "$P"
( cd /verif/harness && CARGO_NET_OFFLINE=true cargo build --release --quiet 2>&1 | tail -3 )
( cd /verif && "$@" ); RC=$?
git -C /repo checkout -q -- .
( cd /verif/harness && CARGO_NET_OFFLINE=true cargo build --release --quiet 2>&1 | tail -3 )
cd /verif && git status --porcelain replays | grep '^??' | awk '{print $2}' | xargs -r rm -f
echo "with_seed rc=$RC"

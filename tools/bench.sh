#!/usr/bin/env bash
# tools/bench.sh setup | try <abs patch> <ID...> | drop
# Development aid: a scratch copy of the harness under /tmp/bench pointed at a scratch worktree of /repo, so that
# seeded changes can be tried while /repo itself is in use by a long run. Nothing registered in MANIFEST.json uses it.
set -u
B=${BENCH_DIR:-/tmp/bench}
case "${1:-}" in
  setup)
    mkdir -p $B/verif
    [ -d $B/repo ] || git -C /repo worktree add -q --detach $B/repo HEAD
    git -C $B/repo checkout -q --detach "$(git -C /repo rev-parse HEAD)"
    rsync -a --delete --exclude target --exclude 'fuzz/corpus*' --exclude 'fuzz/artifacts' /verif/harness/ $B/verif/harness/
    rsync -a /verif/check /verif/known_findings.txt $B/verif/
    rsync -a --delete /verif/replays/ $B/verif/replays/
    mkdir -p $B/verif/evidence
    sed -i "s#\"/repo#\"$B/repo#g; s#path = \"/repo#path = \"$B/repo#g" $B/verif/harness/Cargo.toml
    grep -n "$B/repo" $B/verif/harness/Cargo.toml | head -3
    ( cd $B/verif && VERIF_DIR_OVERRIDE=$B/verif ./check --build-only ) && echo "bench ready"
    ;;
  try)
    P="$2"; shift 2
    cd $B/repo || exit 2
    git checkout -q -- .
    if ! git apply --check "$P" 2>/dev/null; then echo "patch does not apply: $P"; exit 2; fi
    git apply "$P"
    for ID in "$@"; do
      OUT=$(cd $B/verif && VERIF_DIR_OVERRIDE=$B/verif VERIF_NO_REPLAY=${VERIF_NO_REPLAY:-1} VERIF_SEED=${VERIF_SEED:-1} timeout 1800 ./check "$ID" --tier ${TIER:-quick} 2>&1); RC=$?
      SIG=$(echo "$OUT" | grep -E "^(violation|replay violation)" | head -1 | cut -c1-260)
      echo "RESULT $(basename $(dirname $P)) $ID rc=$RC $SIG"
    done
    git -C $B/repo checkout -q -- .
    ;;
  e2e)
    # bench.sh e2e <abs patch> <phase> [n]: one end-to-end phase with the change applied
    P="$2"; PH="$3"; N="${4:-1}"
    cd $B/repo || exit 2
    git checkout -q -- .
    git apply "$P" || exit 2
    ( cd $B/verif/harness && cargo build --release --quiet 2>&1 | tail -3 )
    ( cd $B/verif && VERIF_DIR_OVERRIDE=$B/verif VERIF_SEED=${VERIF_SEED:-1} harness/target/release/vcheck e2e "$PH" "$N" 2>&1 | grep -E "^violation|VIOLATION|scenarios_run|notes|inconclusive" ; echo "rc=${PIPESTATUS[0]}" )
    git -C $B/repo checkout -q -- .
    ;;
  drop)
    git -C /repo worktree remove --force $B/repo; rm -rf $B
    ;;
  *) echo "usage: bench.sh setup|try <patch> <ID...>|drop"; exit 2;;
esac

#!/usr/bin/env python3
"""Writes /verif/seeded/<id>/meta.json from the table below (what each seeded change breaks, what it needs, what was run)."""
import json, os
T = {
 "C01-a": ("C01", "src/net/mod.rs send_all_datagrams ignores the count a short sendmmsg returns: the unsent tail of the batch is silently lost on a healthy link",
           "a batch flush whose sendmmsg accepts 0 < n < len datagrams (send buffer fills mid-batch); never happens on loopback UDP",
           "caught by C01 [short-send] datagram-dropped-on-short-send (tier added after the first run missed it)"),
 "C01-b": ("C01", "flush_all_batches only flushes links whose 15 ms window has elapsed: a flush tick < 15 ms after a size-triggered drain leaves a datagram queued",
           "size flush on link L, one more datagram routed to L, flush tick < 15 ms after the drain",
           "caught by C01 [event-loop] flush-tick-left-queue"),
 "C02-a": ("C02", "register_packet guard `seq < highest_acked_seq` (was <=): a retransmission of exactly the last cumulatively acked seq is never retired by later ACKs",
           "send exactly the seq of the last cumulative ACK, then repeats / advances <= 64",
           "caught by C02 [history] cum-ack-late-send-leak (also by the committed replay of the F1 fix)"),
 "C02-b": ("C02", "SRTLA-ACK fallback scan lost its `break`: an ACK arriving on a link that does not hold the seq retires it on every other holder",
           ">= 3 links, same seq outstanding on two links other than the arrival link (probe copy / re-route), arrival link no longer holds it",
           "caught by C02 [history] srtla-ack-retire-count"),
 "C03-a": ("C03", "apply_stall_gate any_healthy tests !is_briefly_silent instead of !silence_pulled: a pulled-then-drained link counts as healthy but stays gated",
           "link 0 silence-pulled under load, its backlog drains via ACKs on link 1, then link 1 goes mute under load: both gated, select returns None",
           "caught by C03 [states] blackout"),
 "C03-b": ("C03", "enhanced any_unconstrained tests c.connected instead of !is_timed_out: a timed-out-but-still-connected sibling makes the cap hard-skip remove the only live link",
           "enhanced mode, CC target published, survivor over its BDP cap, sibling timed out but not yet recycled by housekeeping",
           "caught by C03 [states] blackout"),
 "C04-a": ("C04", "enhanced selection records current_score for a stall-gated previous link: hysteresis returns the gated link",
           "gated link is last_selected_idx and the healthy alternative scores < 1.10x its raw score",
           "caught by C04 [decisions] routed-to-gated-link"),
 "C04-b": ("C04", "override ranking skips stall_latched() instead of is_stall_gated(): a silence-pulled (not latched) link is a legal override target",
           "enhanced, retransmit-flagged or critical-window packet, a loaded link silent >= max(250 ms, 2 RTT) with proof still fresh, best cached quality",
           "caught by C04 [decisions] override-picks-gated-link"),
 "C05-a": ("C05", "attribute_nak falls through to the fallback scan when the tracked carrier no longer holds the seq: a repeated NAK charges another holder",
           "same seq in a second link's log (probe copy / re-route) and the seq NAKed twice",
           "caught by C05 [history] nak-charged-non-owner"),
 "C05-b": ("C05", "NAK decrement `if window > 1000 { window -= 100 }`: a window in 1001..1099 drops below the 1000 floor",
           "~190 NAKs to the floor, SRTLA ACK growth (+29/+1) to a non-multiple of 100, another NAK",
           "caught by C05 [history] nak-charge-size after adding pre-depressed windows to the generator (first run missed it); also C06 nak-step and C10 classic-window"),
 "C06-a": ("C06", "enhanced earned ACK adds +29 without the clamp when window < 60000: window reaches up to 60028 and the next global ACK lowers it",
           "enhanced mode, ~1330 loss-free earned ACKs to 59972..59999 with >= 60 packets in flight",
           "caught by C06 [history] ack-step after adding ACK bursts on a loaded link (first run missed it)"),
 "C06-b": ("C06", "fast recovery entry test `window / 1000 <= 2` (integer division): entered at windows 2001..2999",
           "sustained loss run leaving the window in 2001..2999 while not yet in fast recovery",
           "caught by C06 [history] fast-recovery-entered"),
 "C07-a": ("C07", "build_reg1_for only arms the REG2 deadline when it is 0: after one accepted REG2 a later REG1 inherits the stale REG3 deadline and is abandoned within ~1 s",
           "a successful REG2 exchange with no uplink registered afterwards, a new REG_NGP/REG1, a tick before the reply",
           "caught by C07 [pure-generated] reg1-on-two-links"),
 "C07-b": ("C07", "REG2 broadcast round skips uplinks that are timed out: re-opened links with last_received None miss the broadcast",
           "re-registration after established links dropped and their sockets were re-opened; broadcast in a pass where their reconnect is not due",
           "caught by C07 [shell] broadcast-incomplete"),
}
root = os.path.join(os.path.dirname(os.path.dirname(os.path.abspath(__file__))), "seeded")
for k, (prop, what, needs, result) in T.items():
    d = os.path.join(root, k)
    if not os.path.isdir(d):
        continue
    meta = {
        "property": prop,
        "change": what,
        "needs_to_manifest": needs,
        "origin": "written by an independent sub-agent that saw only the property text and its own scratch worktree",
        "confirmed": "tools/confirm_seed.sh in a scratch worktree: patch applies and builds, 424/424 existing tests pass with it, demo.rs fails with the patch and passes without",
        "ran": f"tools/try_seed.sh seeded/{k}/patch.diff {prop}  (git apply to /repo, ./check {prop} --tier quick, git checkout)",
        "result": result,
    }
    json.dump(meta, open(os.path.join(d, "meta.json"), "w"), indent=1)
print("ok")
